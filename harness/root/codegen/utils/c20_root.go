package utils

const c20Manifest = ParsedSpecsFile
