package restlidata

import "MODULE/restlicodec"

var c04ProbeRequired = restlicodec.RequiredFields{"s"}
