package restlicodec

func c04ReadRecord(r Reader) error {
	return r.ReadRecord(RequiredFields{"a", "b"}, func(r Reader, field string) error {
		switch field {
		case "a":
			_, e := r.ReadString()
			return e
		case "b":
			_, e := r.ReadInt32()
			return e
		}
		return r.Skip()
	})
}

func c01EncodeQuery(write func(Writer) error) (string, error) {
	w := NewRestLiQueryParamsWriter()
	err := w.WriteParams(func(pw func(string) Writer) error { return write(pw("p")) })
	return w.Finalize(), err
}
