package zzh

import "MODULE/restlicodec"

func genEncodeQuery(m restlicodec.Marshaler) (string, error) {
	w := restlicodec.NewRestLiQueryParamsWriter()
	err := w.WriteParams(func(pw func(string) restlicodec.Writer) error { return m.MarshalRestLi(pw("p")) })
	return w.Finalize(), err
}
