// Package zzverif is the harness-side API of the gosym engine.
//
// Inside the engine every function here is intercepted (the bodies below are
// never executed): inputs become solver variables, Assume/Assert become path
// constraints. Compiled natively the same calls read their values from a tape
// (VERIF_TAPE), which is how solver models are replayed against the real
// build and how the engine is validated differentially.
package zzverif

import (
	"encoding/json"
	"fmt"
	"math"
	"os"
	"sync"
)

// Control-flow signals used by the native implementation.
type AssumeFailed struct{ Site string }
type Violation struct{ Msg string }

type tapeFile struct {
	Harness string   `json:"harness"`
	Args    []int    `json:"args"`
	Tape    []uint64 `json:"tape"`
}

var (
	tape     []uint64
	pos      int
	Covers   = map[string]int{}
	Observed []string
	mapOrder bool
)

// LoadTape reads the tape named by VERIF_TAPE (native replay only).
func LoadTape(path string) (harness string, args []int, err error) {
	b, err := os.ReadFile(path)
	if err != nil {
		return "", nil, err
	}
	var t tapeFile
	if err := json.Unmarshal(b, &t); err != nil {
		return "", nil, err
	}
	SetTape(t.Tape)
	return t.Harness, t.Args, nil
}

func SetTape(t []uint64) {
	tape = t
	pos = 0
	Covers = map[string]int{}
	Observed = nil
	mapOrder = false
}

func next(mask uint64) uint64 {
	var v uint64
	if pos < len(tape) {
		v = tape[pos]
	}
	pos++
	return v & mask
}

func Byte() byte { return byte(next(0xff)) }

func Bytes(n int) []byte {
	b := make([]byte, n)
	for i := range b {
		b[i] = Byte()
	}
	return b
}

func String(n int) string { return string(Bytes(n)) }

func Bool() bool       { return next(1) != 0 }
func Int32() int32     { return int32(uint32(next(0xffffffff))) }
func Uint32() uint32   { return uint32(next(0xffffffff)) }
func Int64() int64     { return int64(next(^uint64(0))) }
func Uint64() uint64   { return next(^uint64(0)) }
func Int() int         { return int(next(^uint64(0))) }
func Float64() float64 { return math.Float64frombits(next(^uint64(0))) }
func Float32() float32 { return math.Float32frombits(uint32(next(0xffffffff))) }

// Choose returns an arbitrary integer in [0,k).
func Choose(k int) int {
	if k <= 1 {
		return 0
	}
	v := next(0xffffffff)
	if v >= uint64(k) {
		panic(AssumeFailed{"choose range"})
	}
	return int(v)
}

func Assume(c bool) {
	if !c {
		panic(AssumeFailed{""})
	}
}

func Assert(c bool, msg string) {
	if !c {
		panic(Violation{msg})
	}
}

func Fail(msg string) { panic(Violation{msg}) }

var apiMu sync.Mutex // native only: Cover/Observe may be called from free-running threads

func Cover(label string) { apiMu.Lock(); Covers[label]++; apiMu.Unlock() }

// MapOrder asks the engine to treat the iteration order of every Go map
// ranged over from now on as solver-chosen. Natively it has no effect (the
// runtime already randomises).
func MapOrder(on bool) { mapOrder = on }

// PoolReuse asks the engine to let sync.Pool hand back what was Put (LIFO, the
// single-goroutine behaviour between garbage collections) instead of always
// missing. Natively it has no effect: the real pool does what it does.
func PoolReuse(on bool) {}

// Try runs f and reports whether a panic escaped it (with its text).
func Try(f func()) (panicked bool, msg string) {
	defer func() {
		if r := recover(); r != nil {
			switch r.(type) {
			case AssumeFailed, Violation:
				panic(r)
			}
			panicked = true
			msg = fmt.Sprint(r)
		}
	}()
	f()
	return false, ""
}

func observe(s string) { apiMu.Lock(); Observed = append(Observed, s); apiMu.Unlock() }

func ObserveString(label, s string)    { observe(fmt.Sprintf("%s=%q", label, s)) }
func ObserveInt(label string, v int64) { observe(fmt.Sprintf("%s=%d", label, v)) }
func ObserveBool(label string, v bool) { observe(fmt.Sprintf("%s=%v", label, v)) }

// ---------------------------------------------------------------------------
// Cooperative threads with a solver-chosen schedule.
//
// Go registers a thread; RunThreads runs all registered threads to completion
// one at a time. Control changes hands only at Yield / WaitUntil (the
// instrumented sync primitives in zzsync call them before every operation) and
// at thread exit. Whenever more than one thread can run, the next one is
// Choose(n): in the engine a solver variable, so that the explorer covers
// every schedule within the preemption bound; natively a tape value, so that a
// schedule found by the solver is forced on the compiled code.
//
// This code is itself interpreted by the engine (go statements and channels
// run on real goroutines, handing a baton), so both sides execute one and
// the same scheduler.

type thread struct {
	id       int
	f        func()
	resume   chan struct{}
	cond     func() bool
	started  bool
	done     bool
	panicked bool
	panicVal interface{}
}

var (
	threads   []*thread
	curThread *thread
	back      chan struct{}
	// Switches counts the context switches of the last RunThreads.
	Switches int
)

// ---------------------------------------------------------------------------
// Data-race detection (C17).
//
// RaceDetect(true) makes the engine check every memory access of the threads
// of the following RunThreads calls for happens-before races (vector clocks;
// engine/interp/race.go). HBRelease / HBAcquire are how the instrumented sync
// primitives (zzsync) tell it about synchronisation; hbSwitch tells it which
// logical thread runs. Natively all four do nothing: a race the engine
// reports is confirmed by running the same harness with VERIF_FREE=1 under
// the Go race detector, where RunThreads starts the threads as ordinary
// goroutines (no baton, which would order everything) and zzsync falls
// through to the real sync package.

func RaceDetect(on bool)        {}
func HBRelease(obj interface{}) {}
func HBAcquire(obj interface{}) {}
func hbSwitch(id int)           {}

var free = os.Getenv("VERIF_FREE") == "1"

// Free reports whether threads run freely (native race-detector replay).
func Free() bool { return free }

func runFree(ts []*thread) {
	var wg sync.WaitGroup
	for _, t := range ts {
		wg.Add(1)
		go func(t *thread) {
			defer wg.Done()
			t.f()
		}(t)
	}
	wg.Wait()
}

// Go registers f as a thread of the next RunThreads call.
func Go(f func()) {
	threads = append(threads, &thread{id: len(threads), f: f, resume: make(chan struct{})})
}

// ThreadID is the index of the running thread, -1 outside RunThreads.
func ThreadID() int {
	if curThread == nil {
		return -1
	}
	return curThread.id
}

// Yield is a scheduling point.
func Yield() {
	t := curThread
	if t == nil {
		return
	}
	back <- struct{}{}
	<-t.resume
}

// WaitUntil blocks the running thread until c holds. c is evaluated by the
// scheduler between steps and must not yield.
func WaitUntil(c func() bool) {
	if c() {
		return
	}
	t := curThread
	if t == nil {
		Fail("deadlock: blocking wait outside RunThreads would never return")
	}
	t.cond = c
	Cover("sched:blocked")
	back <- struct{}{}
	<-t.resume
}

func threadMain(t *thread) {
	defer func() {
		if r := recover(); r != nil {
			t.panicked = true
			t.panicVal = r
		}
		t.done = true
		back <- struct{}{}
	}()
	t.f()
}

// RunThreads runs the registered threads under every schedule the solver can
// choose with at most bound preemptions (bound < 0: unbounded). A preemption
// is a switch away from a thread that could have continued; switches at
// blocking waits and thread exits are free. It fails with "deadlock" when
// threads remain and none can run.
func RunThreads(bound int) {
	ts := threads
	threads = nil
	if Free() {
		runFree(ts)
		return
	}
	back = make(chan struct{})
	Switches = 0
	var cur *thread
	preempt := 0
	for {
		var runnable []*thread
		alive := 0
		curRunnable := false
		for _, t := range ts {
			if t.done {
				continue
			}
			alive++
			if t.cond == nil || t.cond() {
				runnable = append(runnable, t)
				if t == cur {
					curRunnable = true
				}
			}
		}
		if alive == 0 {
			break
		}
		if len(runnable) == 0 {
			curThread = nil
			Fail(fmt.Sprintf("deadlock: %d thread(s) blocked forever", alive))
		}
		var pick *thread
		switch {
		case curRunnable && bound >= 0 && preempt >= bound:
			pick = cur
		case len(runnable) == 1:
			pick = runnable[0]
		default:
			pick = runnable[Choose(len(runnable))]
			if curRunnable && pick != cur {
				preempt++
			}
		}
		if cur != nil && pick != cur {
			Switches++
		}
		cur = pick
		pick.cond = nil
		curThread = pick
		hbSwitch(pick.id)
		if !pick.started {
			pick.started = true
			go threadMain(pick)
		} else {
			pick.resume <- struct{}{}
		}
		<-back
		curThread = nil
		hbSwitch(-1)
		if pick.panicked {
			panic(pick.panicVal)
		}
	}
}

// Native reports whether the harness runs compiled (true) or in the engine.
// Only for diagnostics; harness logic must not depend on it.
func Native() bool { return true }

// RunNative executes one harness under the loaded tape and classifies the
// outcome the same way the engine does.
func RunNative(f func()) (outcome, msg string) {
	defer func() {
		if r := recover(); r != nil {
			switch r := r.(type) {
			case AssumeFailed:
				outcome, msg = "assume-failed", r.Site
			case Violation:
				outcome, msg = "violation", r.Msg
			default:
				outcome, msg = "panic", fmt.Sprint(r)
			}
		}
	}()
	f()
	return "ok", ""
}
