// Package zzsync stands in for package sync in the files the checks
// instrument (the import is rewritten in an overlay copy of the current
// source): every operation is preceded by a scheduling point of the zzverif
// cooperative scheduler, and blocking operations block through it, so the
// order of the sync operations of different goroutines becomes a value the
// solver chooses and the native build can be forced to follow.
//
// Only one thread runs at a time (the scheduler hands a baton through
// channels, which also orders memory), so plain fields are enough here.
package zzsync

import (
	"sync"

	"MODULE/zzverif"
)

// Map wraps the real sync.Map.
type Map struct{ m sync.Map }

func (m *Map) Load(key any) (any, bool) { zzverif.Yield(); return m.m.Load(key) }
func (m *Map) Store(key, value any)     { zzverif.Yield(); m.m.Store(key, value) }
func (m *Map) LoadOrStore(key, value any) (any, bool) {
	zzverif.Yield()
	return m.m.LoadOrStore(key, value)
}
func (m *Map) LoadAndDelete(key any) (any, bool) { zzverif.Yield(); return m.m.LoadAndDelete(key) }
func (m *Map) Delete(key any)                    { zzverif.Yield(); m.m.Delete(key) }
func (m *Map) Range(f func(key, value any) bool) {
	zzverif.Yield()
	m.m.Range(f)
}

// WaitGroup follows sync.WaitGroup's contract.
type WaitGroup struct{ n int }

func (w *WaitGroup) Add(delta int) {
	zzverif.Yield()
	w.n += delta
	if w.n < 0 {
		panic("sync: negative WaitGroup counter")
	}
}
func (w *WaitGroup) Done() { w.Add(-1) }
func (w *WaitGroup) Wait() {
	zzverif.Yield()
	zzverif.WaitUntil(func() bool { return w.n == 0 })
}

// Mutex and RWMutex, in case the instrumented file uses them.
type Mutex struct{ held bool }

func (m *Mutex) Lock() {
	zzverif.Yield()
	zzverif.WaitUntil(func() bool { return !m.held })
	m.held = true
}
func (m *Mutex) TryLock() bool {
	zzverif.Yield()
	if m.held {
		return false
	}
	m.held = true
	return true
}
func (m *Mutex) Unlock() {
	zzverif.Yield()
	if !m.held {
		panic("sync: unlock of unlocked mutex")
	}
	m.held = false
}

type RWMutex struct {
	w bool
	r int
}

func (m *RWMutex) Lock() {
	zzverif.Yield()
	zzverif.WaitUntil(func() bool { return !m.w && m.r == 0 })
	m.w = true
}
func (m *RWMutex) Unlock() {
	zzverif.Yield()
	if !m.w {
		panic("sync: Unlock of unlocked RWMutex")
	}
	m.w = false
}
func (m *RWMutex) RLock() {
	zzverif.Yield()
	zzverif.WaitUntil(func() bool { return !m.w })
	m.r++
}
func (m *RWMutex) RUnlock() {
	zzverif.Yield()
	if m.r <= 0 {
		panic("sync: RUnlock of unlocked RWMutex")
	}
	m.r--
}

type Locker = sync.Locker

// Once: the first caller runs f, later callers wait until it has returned.
type Once struct {
	started, done bool
}

func (o *Once) Do(f func()) {
	zzverif.Yield()
	if o.done {
		return
	}
	if o.started {
		zzverif.WaitUntil(func() bool { return o.done })
		return
	}
	o.started = true
	defer func() { o.done = true }()
	f()
}
