// Package zzsync stands in for package sync in the files the checks
// instrument (the import is rewritten in an overlay copy of the current
// source): every operation is preceded by a scheduling point of the zzverif
// cooperative scheduler, blocking operations block through it, and every
// operation reports the happens-before edge it creates (HBRelease/HBAcquire),
// so the order of the sync operations of different goroutines becomes a value
// the solver chooses and the native build can be forced to follow, and the
// engine's race detector knows what is ordered.
//
// Under the scheduler only one thread runs at a time (a baton handed through
// channels, which also orders memory), so plain fields are enough. In free
// mode (zzverif.Free(): native replay under the Go race detector) every type
// falls through to the real sync primitive it embeds.
package zzsync

import (
	"sync"

	"MODULE/zzverif"
)

// Map wraps the real sync.Map (whose own atomicity is trusted).
type Map struct{ m sync.Map }

func (m *Map) Load(key any) (any, bool) {
	zzverif.Yield()
	v, ok := m.m.Load(key)
	zzverif.HBAcquire(m)
	return v, ok
}
func (m *Map) Store(key, value any) {
	zzverif.Yield()
	zzverif.HBRelease(m)
	m.m.Store(key, value)
}
func (m *Map) LoadOrStore(key, value any) (any, bool) {
	zzverif.Yield()
	zzverif.HBRelease(m)
	v, ok := m.m.LoadOrStore(key, value)
	zzverif.HBAcquire(m)
	return v, ok
}
func (m *Map) LoadAndDelete(key any) (any, bool) {
	zzverif.Yield()
	zzverif.HBRelease(m)
	v, ok := m.m.LoadAndDelete(key)
	zzverif.HBAcquire(m)
	return v, ok
}
func (m *Map) Delete(key any) {
	zzverif.Yield()
	zzverif.HBRelease(m)
	m.m.Delete(key)
}
func (m *Map) Range(f func(key, value any) bool) {
	zzverif.Yield()
	zzverif.HBAcquire(m)
	m.m.Range(f)
}

// WaitGroup follows sync.WaitGroup's contract.
type WaitGroup struct {
	n    int
	real sync.WaitGroup
}

func (w *WaitGroup) Add(delta int) {
	if zzverif.Free() {
		w.real.Add(delta)
		return
	}
	zzverif.Yield()
	if delta < 0 {
		zzverif.HBRelease(w)
	}
	w.n += delta
	if w.n < 0 {
		panic("sync: negative WaitGroup counter")
	}
}
func (w *WaitGroup) Done() { w.Add(-1) }
func (w *WaitGroup) Wait() {
	if zzverif.Free() {
		w.real.Wait()
		return
	}
	zzverif.Yield()
	zzverif.WaitUntil(func() bool { return w.n == 0 })
	zzverif.HBAcquire(w)
}

type Mutex struct {
	held bool
	real sync.Mutex
}

func (m *Mutex) Lock() {
	if zzverif.Free() {
		m.real.Lock()
		return
	}
	zzverif.Yield()
	zzverif.WaitUntil(func() bool { return !m.held })
	m.held = true
	zzverif.HBAcquire(m)
}
func (m *Mutex) TryLock() bool {
	if zzverif.Free() {
		return m.real.TryLock()
	}
	zzverif.Yield()
	if m.held {
		return false
	}
	m.held = true
	zzverif.HBAcquire(m)
	return true
}
func (m *Mutex) Unlock() {
	if zzverif.Free() {
		m.real.Unlock()
		return
	}
	zzverif.Yield()
	if !m.held {
		panic("sync: unlock of unlocked mutex")
	}
	zzverif.HBRelease(m)
	m.held = false
}

type RWMutex struct {
	w    bool
	r    int
	real sync.RWMutex
}

func (m *RWMutex) Lock() {
	if zzverif.Free() {
		m.real.Lock()
		return
	}
	zzverif.Yield()
	zzverif.WaitUntil(func() bool { return !m.w && m.r == 0 })
	m.w = true
	zzverif.HBAcquire(m)
}
func (m *RWMutex) Unlock() {
	if zzverif.Free() {
		m.real.Unlock()
		return
	}
	zzverif.Yield()
	if !m.w {
		panic("sync: Unlock of unlocked RWMutex")
	}
	zzverif.HBRelease(m)
	m.w = false
}
func (m *RWMutex) RLock() {
	if zzverif.Free() {
		m.real.RLock()
		return
	}
	zzverif.Yield()
	zzverif.WaitUntil(func() bool { return !m.w })
	m.r++
	zzverif.HBAcquire(m)
}
func (m *RWMutex) RUnlock() {
	if zzverif.Free() {
		m.real.RUnlock()
		return
	}
	zzverif.Yield()
	if m.r <= 0 {
		panic("sync: RUnlock of unlocked RWMutex")
	}
	zzverif.HBRelease(m)
	m.r--
}

type Locker = sync.Locker

// Once: the first caller runs f, later callers wait until it has returned.
type Once struct {
	started, done bool
	real          sync.Once
}

func (o *Once) Do(f func()) {
	if zzverif.Free() {
		o.real.Do(f)
		return
	}
	zzverif.Yield()
	if o.done {
		zzverif.HBAcquire(o)
		return
	}
	if o.started {
		zzverif.WaitUntil(func() bool { return o.done })
		zzverif.HBAcquire(o)
		return
	}
	o.started = true
	defer func() {
		zzverif.HBRelease(o)
		o.done = true
	}()
	f()
}

// Pool behaves the way sync.Pool does for goroutines that share a processor:
// Get hands back the object Put most recently (or calls New). Put → Get of
// the same pool is a happens-before edge, as in the real pool.
type Pool struct {
	New   func() any
	items []any
	real  sync.Pool
}

func (p *Pool) Get() any {
	if zzverif.Free() {
		p.real.New = p.New
		return p.real.Get()
	}
	zzverif.Yield()
	if n := len(p.items); n > 0 {
		x := p.items[n-1]
		p.items = p.items[:n-1]
		zzverif.HBAcquire(p)
		return x
	}
	if p.New != nil {
		return p.New()
	}
	return nil
}

func (p *Pool) Put(x any) {
	if zzverif.Free() {
		p.real.Put(x)
		return
	}
	zzverif.Yield()
	if x == nil {
		return
	}
	zzverif.HBRelease(p)
	p.items = append(p.items, x)
	// whoever still uses x after giving it back runs concurrently with the
	// next owner: let the scheduler place another thread right here
	zzverif.Yield()
}

// Cond is not modelled: code that needs it does not compile against zzsync,
// and the check then reports that it cannot decide (exit 2).
