package restlicodec

import (
	"math"
	"net/url"
	"unicode/utf8"

	verif "MODULE/zzverif"
)

// C01 kernels: escape/unescape symmetry and raw writer/reader round trips in
// the five wire formats.

func Harness_C01_PathEscape(n int) {
	s := verif.String(n)
	d, err := url.PathUnescape(Ror2PathEscape(s))
	verif.Assert(err == nil, "PathUnescape rejects Ror2PathEscape output")
	verif.Assert(d == s, "path escape round trip changed the string")
	verif.Cover("done")
}

func Harness_C01_QueryEscape(n int) {
	s := verif.String(n)
	d, err := url.QueryUnescape(Ror2QueryEscape(s))
	verif.Assert(err == nil, "QueryUnescape rejects Ror2QueryEscape output")
	verif.Assert(d == s, "query escape round trip changed the string")
	verif.Cover("done")
}

func Harness_C01_HeaderEscape(n int) {
	s := verif.String(n)
	d, err := url.PathUnescape(headerEncodingEscaper(s))
	verif.Assert(err == nil, "PathUnescape rejects header escaper output")
	verif.Assert(d == s, "header escape round trip changed the string")
	verif.Cover("done")
}

const (
	fmtJSON = iota
	fmtPrettyJSON
	fmtHeader
	fmtPath
	fmtQuery
	c01Formats
)

// c01Encode serialises with the writer of the format; c01Reader opens the
// matching reader on the output.
func c01Encode(format int, write func(Writer) error) (string, error) {
	switch format {
	case fmtJSON:
		w := NewCompactJsonWriter()
		err := write(w)
		return w.Finalize(), err
	case fmtPrettyJSON:
		w := NewPrettyJsonWriter()
		err := write(w)
		return w.Finalize(), err
	case fmtHeader:
		w := NewRor2HeaderWriter()
		err := write(w)
		return w.Finalize(), err
	case fmtPath:
		w := NewRor2PathWriter()
		err := write(w)
		return w.Finalize(), err
	default:
		return c01EncodeQuery(write)
	}
}

func c01Reader(format int, enc string) (Reader, error) {
	switch format {
	case fmtJSON, fmtPrettyJSON:
		return NewJsonReader([]byte(enc))
	case fmtHeader, fmtPath:
		return NewRor2Reader(enc)
	default:
		params, err := ParseQueryParams(enc)
		if err != nil {
			return nil, err
		}
		r := params["p"]
		verif.Assert(r != nil, "query parameter p lost")
		return r, nil
	}
}

func c01RoundTrip(format int, write func(Writer) error, read func(Reader) error) {
	enc, err := c01Encode(format, write)
	verif.Assert(err == nil, "encoding a valid value failed")
	r, err := c01Reader(format, enc)
	verif.Assert(err == nil, "reader rejects the encoder's output")
	err = read(r)
	verif.Assert(err == nil, "decoding the encoder's output failed")
	verif.Cover("round-trip")
}

// shapes of string-carrying documents
const c01StrShapes = 5

// Harness_C01_String: one symbolic string of n bytes (all bytes) through a
// document shape in a format.
func Harness_C01_String(format, shape, n int) {
	s := verif.String(n)
	if format <= fmtPrettyJSON && shape != 4 {
		// JSON text carries characters: a Go string that is not valid UTF-8
		// has no JSON representation (bytes, shape 4, are not restricted).
		verif.Assume(utf8.ValidString(s))
	}
	switch shape {
	case 0: // bare top-level string
		var got string
		c01RoundTrip(format, func(w Writer) error { w.WriteString(s); return nil },
			func(r Reader) (err error) { got, err = r.ReadString(); return err })
		verif.Assert(got == s, "top-level string changed")
	case 1: // map value
		var got string
		seen := 0
		c01RoundTrip(format, func(w Writer) error {
			return w.WriteMap(func(kw func(string) Writer) error { kw("k").WriteString(s); return nil })
		}, func(r Reader) error {
			return r.ReadMap(func(r Reader, k string) (err error) {
				seen++
				verif.Assert(k == "k", "map key changed")
				got, err = r.ReadString()
				return err
			})
		})
		verif.Assert(seen == 1, "map entry lost or duplicated")
		verif.Assert(got == s, "map value string changed")
	case 2: // array items: s, "", s
		var got []string
		c01RoundTrip(format, func(w Writer) error {
			return w.WriteArray(func(iw func() Writer) error {
				iw().WriteString(s)
				iw().WriteString("")
				iw().WriteString(s)
				return nil
			})
		}, func(r Reader) error {
			return r.ReadArray(func(r Reader) error {
				v, err := r.ReadString()
				got = append(got, v)
				return err
			})
		})
		verif.Assert(len(got) == 3, "array length changed")
		verif.Assert(got[0] == s, "array item 0 changed")
		verif.Assert(got[1] == "", "empty array item changed")
		verif.Assert(got[2] == s, "array item 2 changed")
	case 3: // map KEY
		var gotK, gotV string
		seen := 0
		c01RoundTrip(format, func(w Writer) error {
			return w.WriteMap(func(kw func(string) Writer) error { kw(s).WriteString("v"); return nil })
		}, func(r Reader) error {
			return r.ReadMap(func(r Reader, k string) (err error) {
				seen++
				gotK = k
				gotV, err = r.ReadString()
				return err
			})
		})
		verif.Assert(seen == 1, "map entry lost or duplicated")
		verif.Assert(gotK == s, "map key changed")
		verif.Assert(gotV == "v", "map value changed")
	case 4: // bytes
		b := []byte(s)
		var got []byte
		c01RoundTrip(format, func(w Writer) error { w.WriteBytes(b); return nil },
			func(r Reader) (err error) { got, err = r.ReadBytes(); return err })
		verif.Assert(string(got) == s, "bytes changed")
	}
}

var c01Int64Bounds = []int64{0, 1, -1, 9, 10, -10, 999, 1000, -1000, 99999, 100000, 2147483647, -2147483648, 2147483648, -2147483649,
	999999999999, 1000000000000, 9223372036854775807, -9223372036854775808, 1 << 53, -(1 << 53) - 1}

var c01Floats = []float64{0, math.Copysign(0, -1), 1, -1, 0.1, 1.0 / 3, 123456789.125, 1e21, 1e21 * (1 + 1e-15), 9.999999999999999e20, 1e-7, 9.999999999999999e-8, 1.0000000000000001e-7,
	math.MaxFloat64, -math.MaxFloat64, math.SmallestNonzeroFloat64, -math.SmallestNonzeroFloat64, math.MaxFloat32, math.Inf(1), math.Inf(-1), math.NaN(), 5e-324, 2.2250738585072014e-308, 1e308, 4.9e-324, 1e22, 1e23}

// Harness_C01_Num: numeric and boolean leaves. kind 0: int32 symbolic |x|<=999;
// 1: int64 symbolic |x|<=999; 2: bool; 3: int64 boundary idx; 4: int32 boundary
// idx; 5: float64 idx; 6: float32 idx.
func Harness_C01_Num(format, kind, idx int) {
	switch kind {
	case 0:
		x := verif.Int32()
		verif.Assume(x >= -999)
		verif.Assume(x <= 999)
		var got int32
		c01RoundTrip(format, func(w Writer) error { w.WriteInt32(x); return nil },
			func(r Reader) (err error) { got, err = r.ReadInt32(); return err })
		verif.Assert(got == x, "int32 changed")
	case 1:
		x := verif.Int64()
		verif.Assume(x >= -999)
		verif.Assume(x <= 999)
		var got int64
		c01RoundTrip(format, func(w Writer) error {
			return w.WriteMap(func(kw func(string) Writer) error { kw("n").WriteInt64(x); return nil })
		}, func(r Reader) error {
			return r.ReadMap(func(r Reader, k string) (err error) { got, err = r.ReadInt64(); return err })
		})
		verif.Assert(got == x, "int64 changed")
	case 2:
		x := verif.Bool()
		var got bool
		c01RoundTrip(format, func(w Writer) error { w.WriteBool(x); return nil },
			func(r Reader) (err error) { got, err = r.ReadBool(); return err })
		verif.Assert(got == x, "bool changed")
	case 3:
		if idx >= len(c01Int64Bounds) {
			return
		}
		x := c01Int64Bounds[idx]
		var got int64
		c01RoundTrip(format, func(w Writer) error { w.WriteInt64(x); return nil },
			func(r Reader) (err error) { got, err = r.ReadInt64(); return err })
		verif.Assert(got == x, "int64 boundary value changed")
	case 4:
		if idx >= len(c01Int64Bounds) {
			return
		}
		x := c01Int64Bounds[idx]
		if x > math.MaxInt32 || x < math.MinInt32 {
			return
		}
		var got int32
		c01RoundTrip(format, func(w Writer) error { w.WriteInt32(int32(x)); return nil },
			func(r Reader) (err error) { got, err = r.ReadInt32(); return err })
		verif.Assert(got == int32(x), "int32 boundary value changed")
	case 5:
		if idx >= len(c01Floats) {
			return
		}
		x := c01Floats[idx]
		var got float64
		c01RoundTrip(format, func(w Writer) error {
			return w.WriteArray(func(iw func() Writer) error { iw().WriteFloat64(x); return nil })
		}, func(r Reader) error {
			return r.ReadArray(func(r Reader) (err error) { got, err = r.ReadFloat64(); return err })
		})
		verif.Assert(math.Float64bits(got) == math.Float64bits(x) || (x != x && got != got), "float64 changed")
	case 6:
		if idx >= len(c01Floats) {
			return
		}
		x := float32(c01Floats[idx])
		var got float32
		c01RoundTrip(format, func(w Writer) error { w.WriteFloat32(x); return nil },
			func(r Reader) (err error) { got, err = r.ReadFloat32(); return err })
		verif.Assert(math.Float32bits(got) == math.Float32bits(x) || (x != x && got != got), "float32 changed")
	}
}

// Reachability twin.
func Harness_C01_Twin(n int) {
	s := verif.String(n)
	verif.Assert(Ror2PathEscape(s) == s, "twin: some string needs escaping")
}
