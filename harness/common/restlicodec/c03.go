package restlicodec

import (
	"math"
	"unicode/utf8"

	ref "MODULE/zzref"
	verif "MODULE/zzverif"
)

// C03: the library's output against the independent reference parsers of
// c03ref.go, and reference-encoded documents against the library's readers.

func c03Parse(format int, doc string) (*ref.Node, bool) {
	switch format {
	case fmtJSON, fmtPrettyJSON:
		return ref.ParseJSON(doc)
	case fmtHeader, fmtPath:
		return ref.ParseROR2(doc)
	}
	// query flavour: "p=<ror2>"
	if len(doc) < 2 || doc[0] != 'p' || doc[1] != '=' {
		return nil, false
	}
	return ref.ParseROR2(doc[2:])
}

// bytes travel as a string holding one code point per byte
func c03BytesAsText(b []byte) string {
	var out []byte
	for _, c := range b {
		out = ref.AppendRune(out, int(c))
	}
	return string(out)
}

// Harness_C03_Emit: a document {"k": <leaf>, "<key>": "v", "a": [<leaf>, ""]}
// written by the library in the given format parses under the reference
// parser to exactly that tree. leaf kind: 0 string, 1 bytes, 2 map key.
func Harness_C03_Emit(format, kind, n int) {
	s := verif.String(n)
	if kind != 1 && format <= fmtPrettyJSON {
		verif.Assume(utf8.ValidString(s))
	}
	item := s
	if kind == 1 {
		item = "z" // the bytes leaf is the only place arbitrary bytes go
	}
	key := "x"
	if kind == 2 {
		key = s
		verif.Assume(key != "k" && key != "a")
	}
	enc, err := c01Encode(format, func(w Writer) error {
		return w.WriteMap(func(kw func(string) Writer) error {
			switch kind {
			case 0:
				kw("k").WriteString(s)
			case 1:
				kw("k").WriteBytes([]byte(s))
			default:
				kw("k").WriteString("fixed")
			}
			kw(key).WriteString("v")
			return kw("a").WriteArray(func(iw func() Writer) error {
				iw().WriteString(item)
				iw().WriteString("")
				return nil
			})
		})
	})
	verif.Assert(err == nil, "encoding failed")
	tree, ok := c03Parse(format, enc)
	verif.Assert(ok, "the library's output is not well-formed under the reference parser: "+enc)
	verif.Assert(tree.Kind == ref.Object && len(tree.Keys) == 3, "not an object with three members: "+enc)
	k := tree.Get("k")
	verif.Assert(k != nil && k.Kind == ref.String, "member k is not a string")
	switch kind {
	case 0:
		verif.Assert(k.S == s, "string value denotes something else: "+enc)
	case 1:
		verif.Assert(k.S == c03BytesAsText([]byte(s)), "bytes are not written as one code point per byte: "+enc)
	}
	v := tree.Get(key)
	verif.Assert(v != nil && v.Kind == ref.String && v.S == "v", "map key does not denote the key that was written: "+enc)
	a := tree.Get("a")
	verif.Assert(a != nil && a.Kind == ref.Array && len(a.Kids) == 2, "array member wrong")
	verif.Assert(a.Kids[0].Kind == ref.String && a.Kids[0].S == item && a.Kids[1].S == "", "array items denote something else: "+enc)
	verif.Cover("parsed")
}

var c03Nums = []float64{0, math.Copysign(0, -1), 1, -1.5, 1e21, 1e-7, 123456789.125, math.MaxFloat64, math.SmallestNonzeroFloat64}

// Harness_C03_Numbers: numbers are JSON numbers / plain ROR2 tokens; the
// special floats are the three reserved strings.
func Harness_C03_Numbers(format int) {
	i32 := verif.Int32()
	verif.Assume(i32 >= -999 && i32 <= 999)
	f := c03Nums[verif.Choose(len(c03Nums))]
	special := verif.Choose(4) // 0 none, 1 NaN, 2 +Inf, 3 -Inf
	switch special {
	case 1:
		f = math.NaN()
	case 2:
		f = math.Inf(1)
	case 3:
		f = math.Inf(-1)
	}
	b := verif.Bool()
	enc, err := c01Encode(format, func(w Writer) error {
		return w.WriteMap(func(kw func(string) Writer) error {
			kw("i").WriteInt32(i32)
			kw("l").WriteInt64(math.MinInt64)
			kw("f").WriteFloat64(f)
			kw("b").WriteBool(b)
			return nil
		})
	})
	verif.Assert(err == nil, "encoding failed")
	tree, ok := c03Parse(format, enc)
	verif.Assert(ok, "output not well-formed: "+enc)
	json := format <= fmtPrettyJSON
	fi, fl, ff, fb := tree.Get("i"), tree.Get("l"), tree.Get("f"), tree.Get("b")
	verif.Assert(fi != nil && fl != nil && ff != nil && fb != nil, "member lost")
	if json {
		verif.Assert(fi.Kind == ref.Number && fl.Kind == ref.Number && fl.S == "-9223372036854775808", "integers are not JSON numbers: "+enc)
		verif.Assert(fb.Kind == ref.Bool && (fb.S == "true") == b, "bool is not a JSON literal")
		if special == 0 {
			verif.Assert(ff.Kind == ref.Number, "finite float is not a JSON number: "+enc)
		} else {
			verif.Assert(ff.Kind == ref.String, "special float is not a string: "+enc)
		}
	} else {
		verif.Assert(fl.S == "-9223372036854775808" && (fb.S == "true") == b, "ROR2 primitives changed: "+enc)
	}
	if special != 0 {
		verif.Assert(ff.S == []string{"", "NaN", "Infinity", "-Infinity"}[special], "special float is not the reserved string: "+enc)
	}
	verif.Cover("parsed")
}

// Harness_C03_AcceptJSON: a conforming JSON document with insignificant
// whitespace at solver-chosen places, members in either order, member names
// and characters written literally or as \u00XX, and a solidus escape, yields
// the value.
func Harness_C03_AcceptJSON(n int) {
	s := verif.String(n)
	verif.Assume(utf8.ValidString(s))
	ws := func() string { return []string{"", " ", "\n\t", "\r "}[verif.Choose(4)] }
	// reference encoder for the string: escape what RFC 8259 requires, and optionally everything below 0x80 as \u00XX
	allEscaped := verif.Bool()
	lit := `"`
	const hex = "0123456789abcdef"
	for i := 0; i < len(s); i++ {
		c := s[i]
		switch {
		case c < 0x80 && (allEscaped || c < 0x20 || c == '"' || c == '\\'):
			lit += `\u00` + string(hex[c>>4]) + string(hex[c&15])
		default:
			lit += s[i : i+1] // the byte itself (string(c) would re-encode a byte >= 0x80 as a rune)
		}
	}
	lit += `"`
	w1, w2 := ws(), ws()
	// member names may be spelled with escapes too (RFC 8259 §7: any character may be escaped)
	k1 := []string{`"s"`, `"\u0073"`}[verif.Choose(2)]
	k2 := []string{`"t"`, `"\u0074"`}[verif.Choose(2)]
	m1 := k1 + w1 + `:` + w2 + lit
	m2 := k2 + `:"a\/b"`
	doc := w2 + "{" + w1
	if verif.Bool() {
		doc += m1 + w2 + "," + w1 + m2
	} else {
		doc += m2 + "," + m1
	}
	doc += w1 + "}" + w2
	_, conforming := ref.ParseJSON(doc)
	verif.Assert(conforming, "harness bug: the reference encoder produced a non-conforming document")
	r, err := NewJsonReader([]byte(doc))
	verif.Assert(err == nil, "reader refuses a conforming document")
	var gotS, gotT string
	err = r.ReadMap(func(r Reader, k string) (e error) {
		switch k {
		case "s":
			gotS, e = r.ReadString()
		case "t":
			gotT, e = r.ReadString()
		}
		return e
	})
	verif.Assert(err == nil, "a conforming document was rejected: "+doc)
	verif.Assert(gotS == s && gotT == "a/b", "a conforming document decoded to a different value: "+doc)
	verif.Cover("accepted")
}

// Harness_C03_AcceptROR2: every byte of a string percent-encoded (legal but
// not minimal, e.g. %41 for A), or only the reserved ones: same value.
func Harness_C03_AcceptROR2(n int) {
	s := verif.String(n)
	full := verif.Bool()
	const hex = "0123456789ABCDEF"
	enc := ""
	for i := 0; i < len(s); i++ {
		c := s[i]
		unreserved := (c >= 'A' && c <= 'Z') || (c >= 'a' && c <= 'z') || (c >= '0' && c <= '9') || c == '-' || c == '_' || c == '.' || c == '~'
		if full || !unreserved {
			enc += "%" + string(hex[c>>4]) + string(hex[c&15])
		} else {
			enc += string(c)
		}
	}
	if len(s) == 0 {
		enc = "''"
	}
	doc := "(b:List(" + enc + "),a:" + enc + ")"
	_, conforming := ref.ParseROR2(doc)
	verif.Assert(conforming, "harness bug: reference encoder output does not parse")
	r, err := NewRor2Reader(doc)
	verif.Assert(err == nil, "reader refuses a conforming document: "+doc)
	var a string
	var b []string
	err = r.ReadMap(func(r Reader, k string) (e error) {
		switch k {
		case "a":
			a, e = r.ReadString()
		case "b":
			e = r.ReadArray(func(r Reader) error {
				v, e2 := r.ReadString()
				b = append(b, v)
				return e2
			})
		}
		return e
	})
	verif.Assert(err == nil, "a conforming document was rejected: "+doc)
	verif.Assert(a == s && len(b) == 1 && b[0] == s, "a conforming document decoded to a different value: "+doc)
	verif.Cover("accepted")
}

func Harness_C03_Twin(n int) {
	s := verif.String(n)
	enc, _ := c01Encode(fmtHeader, func(w Writer) error { w.WriteString(s); return nil })
	_, ok := ref.ParseROR2(enc)
	verif.Assert(ok && enc == s, "twin: some string is written with escapes")
}
