package restlicodec

import (
	verif "MODULE/zzverif"
)

// C04, untyped Go values: no value handed to NewInterfaceReader makes a read
// panic. The value is a solver-chosen tree (leaf kinds below, optionally
// wrapped in a slice / map / map-of-slice), strings and byte slices carry n
// symbolic bytes, and it is driven through every read shape of c04Read.

const c04AnyLeaves = 26

// named types: the reader sees them through reflection only
type c04NamedBytes []byte
type c04NamedByte uint8
type c04NamedString string
type c04NamedMap map[string]any
type c04NamedSlice []any

func c04AnyLeaf(kind, n int) any {
	switch kind {
	case 0:
		return nil
	case 1:
		return true
	case 2:
		return int(5)
	case 3:
		return int32(-7)
	case 4:
		return int64(1) << 40
	case 5:
		return float64(1.5)
	case 6:
		return float32(2.5)
	case 7:
		return verif.String(n)
	case 8:
		return verif.Bytes(n)
	case 9:
		return (*int)(nil)
	case 10:
		x := 9
		return &x
	case 11:
		return map[int]any{1: 2}
	case 12:
		return struct{}{}
	case 13:
		return []any{}
	case 14:
		return map[string]any{}
	case 15:
		return uint8(3)
	case 16:
		return []int{1}
	case 17:
		return c04NamedBytes(verif.Bytes(n))
	case 18:
		return []c04NamedByte{1, 0xC3}
	case 19:
		return c04NamedString(verif.String(n))
	case 20:
		return map[string]string{"a": "b"}
	case 21:
		return c04NamedMap{"a": int32(1)}
	case 22:
		return c04NamedSlice{"x"}
	case 23:
		return (map[string]any)(nil)
	case 24:
		return ([]byte)(nil)
	}
	return [2]int{}
}

func c04AnyValue(n int) any {
	leaf := c04AnyLeaf(verif.Choose(c04AnyLeaves), n)
	switch verif.Choose(5) {
	case 0:
		return leaf
	case 1:
		return []any{"x", leaf}
	case 2:
		return map[string]any{"a": leaf}
	case 3:
		return map[string]any{"a": []any{leaf}}
	}
	return []any{map[string]any{"a": leaf}}
}

// Harness_C04_Any: value tree x read shape; no panic.
func Harness_C04_Any(shape, n int) {
	v := c04AnyValue(n)
	var err error
	p, msg := verif.Try(func() { err = c04Read(NewInterfaceReader(v), shape) })
	verif.Assert(!p, "interface reader panicked: "+msg)
	// compared between engine and native build on every replayed path
	// (not for the float shapes: the engine's strconv.ParseFloat is a stated
	// nondeterministic stub on symbolic digits)
	if shape != 3 && shape != 15 {
		verif.ObserveBool("err", err != nil)
	}
	verif.Cover("read-returned")
}
