package restlicodec

import (
	verif "MODULE/zzverif"
)

// C04: hostile input into every reader entry point: no panic escapes, no
// unbounded loop (instruction budget), every call returns a value or an error.

const c04Shapes = 17

// c04Read drives reader r through one of a fixed set of typed read shapes.
func c04Read(r Reader, shape int) error {
	switch shape {
	case 0:
		_, err := r.ReadString()
		return err
	case 1:
		_, err := r.ReadInt32()
		return err
	case 2:
		_, err := r.ReadInt64()
		return err
	case 3:
		_, err := r.ReadFloat64()
		return err
	case 4:
		_, err := r.ReadBool()
		return err
	case 5:
		_, err := r.ReadBytes()
		return err
	case 6:
		_, err := r.ReadInterface()
		return err
	case 7:
		return r.Skip()
	case 8:
		_, err := r.ReadRawBytes()
		return err
	case 9:
		return r.ReadMap(func(r Reader, k string) error { _, e := r.ReadString(); return e })
	case 10:
		return r.ReadArray(func(r Reader) error { _, e := r.ReadInt32(); return e })
	case 11:
		return r.ReadMap(func(r Reader, k string) error {
			return r.ReadArray(func(r Reader) error { _, e := r.ReadString(); return e })
		})
	case 12:
		return r.ReadArray(func(r Reader) error {
			return r.ReadMap(func(r Reader, k string) error { _, e := r.ReadInt64(); return e })
		})
	case 13:
		return c04ReadRecord(r)
	case 14:
		return r.ReadMap(func(r Reader, k string) error { return r.Skip() })
	case 15:
		_, err := r.ReadFloat32()
		return err
	case 16:
		_, err := r.ReadInt()
		return err
	}
	return nil
}

func c04Try(r Reader, shape int, what string) {
	p, msg := verif.Try(func() { _ = c04Read(r, shape) })
	verif.Assert(!p, what+" panicked: "+msg)
	verif.Cover("read-returned")
}

// Harness_C04_Ror2: all byte strings of length n into NewRor2Reader + shape.
func Harness_C04_Ror2(shape, n int) {
	data := verif.String(n)
	r, err := NewRor2Reader(data)
	if err != nil {
		return
	}
	verif.Cover("reader-built")
	c04Try(r, shape, "ROR2 read")
}

// Harness_C04_Ror2Ascii: same with every byte < 0x80 (the validation loop
// ranges by rune, so non-ASCII multiplies paths; both sub-bounds are run).
func Harness_C04_Ror2Ascii(shape, n int) {
	b := verif.Bytes(n)
	for _, c := range b {
		verif.Assume(c < 0x80)
	}
	r, err := NewRor2Reader(string(b))
	if err != nil {
		return
	}
	verif.Cover("reader-built")
	c04Try(r, shape, "ROR2 read")
}

// Harness_C04_Query: all byte strings of length n into ParseQueryParams, then
// every resulting parameter reader through the shape.
func Harness_C04_Query(shape, n int) {
	q := verif.String(n)
	var params QueryParamsReader
	p, msg := verif.Try(func() { params, _ = ParseQueryParams(q) })
	verif.Assert(!p, "ParseQueryParams panicked: "+msg)
	for _, r := range params {
		verif.Cover("param-reader")
		c04Try(r, shape, "query param read")
	}
}

// Harness_C04_Json: all byte strings of length n into NewJsonReader + shape.
func Harness_C04_Json(shape, n int) {
	data := verif.Bytes(n)
	r, err := NewJsonReader(data)
	if err != nil {
		return
	}
	verif.Cover("reader-built")
	c04Try(r, shape, "JSON read")
}

// Reachability twin: the assertion machinery must be able to fail.
func Harness_C04_Twin(n int) {
	data := verif.String(n)
	r, err := NewRor2Reader(data)
	if err != nil {
		return
	}
	_, err = r.ReadInt32()
	verif.Assert(err != nil, "twin: some input parses as int32")
}
