package restlicodec

import (
	verif "MODULE/zzverif"
)

// C04: hostile ROR2 input into every reader entry point: no panic escapes.

func c04Reader(n int) (Reader, bool) {
	data := verif.String(n)
	r, err := NewRor2Reader(data)
	if err != nil {
		return nil, false
	}
	verif.Cover("reader-built")
	return r, true
}

func Harness_C04_Ror2_ReadInterface(n int) {
	r, ok := c04Reader(n)
	if !ok {
		return
	}
	p, msg := verif.Try(func() { _, _ = r.ReadInterface() })
	verif.Assert(!p, "ReadInterface panicked: "+msg)
}

func Harness_C04_Ror2_ReadMap(n int) {
	r, ok := c04Reader(n)
	if !ok {
		return
	}
	p, msg := verif.Try(func() {
		_ = r.ReadMap(func(r Reader, k string) error { _, e := r.ReadString(); return e })
	})
	verif.Assert(!p, "ReadMap panicked: "+msg)
}
