package restlicodec

import (
	"strings"

	verif "MODULE/zzverif"
)

// C07 kernel: PathSpec construction and matching against a reference matcher
// written from the property text: a path is excluded iff, after dropping the
// patch operators $set/$delete, some directive is a prefix of it, where the
// wildcard in a directive stands for any one segment.

var c07SpecAlphabet = []string{"a", "b", WildCard}
// "$ref" is an ordinary key that merely starts with '$': only $set and $delete are patch operators
var c07PathAlphabet = []string{"a", "b", "c", WildCard, "$set", "$delete", "$ref"}

func c07RefMatches(directives [][]string, path []string) bool {
	var p []string
	for _, s := range path {
		if s == "$set" || s == "$delete" {
			continue
		}
		p = append(p, s)
	}
	if len(p) == 0 {
		return false
	}
	for _, d := range directives {
		if len(d) > len(p) {
			continue
		}
		ok := true
		for i := range d {
			if d[i] != WildCard && d[i] != p[i] {
				ok = false
				break
			}
		}
		if ok {
			return true
		}
	}
	return false
}

func c07Pick(alphabet []string, n int) []string {
	out := make([]string, n)
	for i := range out {
		out[i] = alphabet[verif.Choose(len(alphabet))]
	}
	return out
}

// Harness_C07_Match: nd directives of depth 1..maxd over {a,b,*}, one path of
// length plen over {a,b,c,*,$set,$delete}. A path never ends in an operator
// (an operator is always followed by the field it applies to) and array
// wildcards in a path only stand where the directive would (the scope stack
// writes "*" for array items).
func Harness_C07_Match(nd, maxd, plen int) {
	var directives [][]string
	var texts []string
	for i := 0; i < nd; i++ {
		d := c07Pick(c07SpecAlphabet, 1+verif.Choose(maxd))
		directives = append(directives, d)
		texts = append(texts, strings.Join(d, "/"))
	}
	path := c07Pick(c07PathAlphabet, plen)
	last := path[len(path)-1]
	verif.Assume(last != "$set" && last != "$delete")
	for i := 1; i < len(path); i++ {
		// an operator is followed by a field name, never by another operator
		op := path[i] == "$set" || path[i] == "$delete"
		prev := path[i-1] == "$set" || path[i-1] == "$delete"
		verif.Assume(!(op && prev))
	}
	spec := NewPathSpec(texts...)
	got := spec.Matches(path)
	want := c07RefMatches(directives, path)
	verif.Cover("compared")
	if want {
		verif.Cover("excluded")
	}
	verif.Assert(got == want, "PathSpec.Matches disagrees with the reference matcher: spec="+strings.Join(texts, ",")+" path="+strings.Join(path, "/"))
}

// Harness_C07_LeadingSlash: directives may be written with a leading slash.
func Harness_C07_LeadingSlash(maxd, plen int) {
	d := c07Pick(c07SpecAlphabet, 1+verif.Choose(maxd))
	path := c07Pick(c07PathAlphabet[:4], plen)
	a := NewPathSpec(strings.Join(d, "/")).Matches(path)
	b := NewPathSpec("/" + strings.Join(d, "/")).Matches(path)
	verif.Assert(a == b, "leading slash changes the meaning of a directive")
	verif.Cover("compared")
}

func Harness_C07_Twin(plen int) {
	path := c07Pick(c07PathAlphabet, plen)
	verif.Assert(!NewPathSpec("a/b").Matches(path), "twin: some path matches a/b")
}
