// Package zzref is the reference codec used by the C03 harnesses.
package zzref

// Reference codec for C03, written from RFC 8259 and from the Rest.li
// protocol 2.0 object/list grammar. It shares no code with the library: a
// strict JSON parser, a ROR2 parser with percent-decoding, and the tree type
// both produce. It is executed by the engine like any other Go code, so its
// byte comparisons fork on the symbolic bytes of the library's output.

type Kind int

const (
	String Kind = iota
	Number
	Bool
	Null
	Object
	Array
)

type Node struct {
	Kind Kind
	S    string // string value (decoded) or number text or "true"/"false"
	Keys []string
	Kids []*Node
}

func (n *Node) Get(key string) *Node {
	for i, k := range n.Keys {
		if k == key {
			return n.Kids[i]
		}
	}
	return nil
}

type refJSON struct {
	b   []byte
	pos int
	ok  bool
}

func ParseJSON(doc string) (*Node, bool) {
	p := &refJSON{b: []byte(doc), ok: true}
	p.ws()
	n := p.value(0)
	p.ws()
	if !p.ok || p.pos != len(p.b) {
		return nil, false
	}
	return n, true
}

func (p *refJSON) fail() *Node { p.ok = false; return nil }

func (p *refJSON) ws() {
	for p.pos < len(p.b) {
		switch p.b[p.pos] {
		case ' ', '\t', '\n', '\r':
			p.pos++
		default:
			return
		}
	}
}

func (p *refJSON) lit(s string) bool {
	if p.pos+len(s) > len(p.b) || string(p.b[p.pos:p.pos+len(s)]) != s {
		return false
	}
	p.pos += len(s)
	return true
}

func (p *refJSON) value(depth int) *Node {
	if !p.ok || p.pos >= len(p.b) || depth > 16 {
		return p.fail()
	}
	switch c := p.b[p.pos]; {
	case c == '{':
		p.pos++
		n := &Node{Kind: Object}
		p.ws()
		if p.pos < len(p.b) && p.b[p.pos] == '}' {
			p.pos++
			return n
		}
		for {
			p.ws()
			if p.pos >= len(p.b) || p.b[p.pos] != '"' {
				return p.fail()
			}
			k, ok := p.str()
			if !ok {
				return p.fail()
			}
			p.ws()
			if p.pos >= len(p.b) || p.b[p.pos] != ':' {
				return p.fail()
			}
			p.pos++
			p.ws()
			v := p.value(depth + 1)
			if !p.ok {
				return nil
			}
			n.Keys = append(n.Keys, k)
			n.Kids = append(n.Kids, v)
			p.ws()
			if p.pos >= len(p.b) {
				return p.fail()
			}
			if p.b[p.pos] == ',' {
				p.pos++
				continue
			}
			if p.b[p.pos] == '}' {
				p.pos++
				return n
			}
			return p.fail()
		}
	case c == '[':
		p.pos++
		n := &Node{Kind: Array}
		p.ws()
		if p.pos < len(p.b) && p.b[p.pos] == ']' {
			p.pos++
			return n
		}
		for {
			p.ws()
			v := p.value(depth + 1)
			if !p.ok {
				return nil
			}
			n.Kids = append(n.Kids, v)
			p.ws()
			if p.pos >= len(p.b) {
				return p.fail()
			}
			if p.b[p.pos] == ',' {
				p.pos++
				continue
			}
			if p.b[p.pos] == ']' {
				p.pos++
				return n
			}
			return p.fail()
		}
	case c == '"':
		s, ok := p.str()
		if !ok {
			return p.fail()
		}
		return &Node{Kind: String, S: s}
	case c == 't':
		if !p.lit("true") {
			return p.fail()
		}
		return &Node{Kind: Bool, S: "true"}
	case c == 'f':
		if !p.lit("false") {
			return p.fail()
		}
		return &Node{Kind: Bool, S: "false"}
	case c == 'n':
		if !p.lit("null") {
			return p.fail()
		}
		return &Node{Kind: Null}
	case c == '-' || (c >= '0' && c <= '9'):
		return p.num()
	}
	return p.fail()
}

// number = [ minus ] int [ frac ] [ exp ]
func (p *refJSON) num() *Node {
	start := p.pos
	if p.b[p.pos] == '-' {
		p.pos++
	}
	if p.pos >= len(p.b) {
		return p.fail()
	}
	if p.b[p.pos] == '0' {
		p.pos++
	} else if p.b[p.pos] >= '1' && p.b[p.pos] <= '9' {
		for p.pos < len(p.b) && p.b[p.pos] >= '0' && p.b[p.pos] <= '9' {
			p.pos++
		}
	} else {
		return p.fail()
	}
	if p.pos < len(p.b) && p.b[p.pos] == '.' {
		p.pos++
		d := 0
		for p.pos < len(p.b) && p.b[p.pos] >= '0' && p.b[p.pos] <= '9' {
			p.pos++
			d++
		}
		if d == 0 {
			return p.fail()
		}
	}
	if p.pos < len(p.b) && (p.b[p.pos] == 'e' || p.b[p.pos] == 'E') {
		p.pos++
		if p.pos < len(p.b) && (p.b[p.pos] == '+' || p.b[p.pos] == '-') {
			p.pos++
		}
		d := 0
		for p.pos < len(p.b) && p.b[p.pos] >= '0' && p.b[p.pos] <= '9' {
			p.pos++
			d++
		}
		if d == 0 {
			return p.fail()
		}
	}
	return &Node{Kind: Number, S: string(p.b[start:p.pos])}
}

func refHex(c byte) (int, bool) {
	switch {
	case c >= '0' && c <= '9':
		return int(c - '0'), true
	case c >= 'a' && c <= 'f':
		return int(c-'a') + 10, true
	case c >= 'A' && c <= 'F':
		return int(c-'A') + 10, true
	}
	return 0, false
}

func AppendRune(out []byte, r int) []byte {
	switch {
	case r < 0x80:
		return append(out, byte(r))
	case r < 0x800:
		return append(out, byte(0xC0|r>>6), byte(0x80|r&0x3F))
	case r < 0x10000:
		return append(out, byte(0xE0|r>>12), byte(0x80|(r>>6)&0x3F), byte(0x80|r&0x3F))
	}
	return append(out, byte(0xF0|r>>18), byte(0x80|(r>>12)&0x3F), byte(0x80|(r>>6)&0x3F), byte(0x80|r&0x3F))
}

// str parses a JSON string strictly: no raw control characters, only the
// RFC 8259 escapes, well-formed UTF-8 for raw bytes.
func (p *refJSON) str() (string, bool) {
	p.pos++ // opening quote
	var out []byte
	for {
		if p.pos >= len(p.b) {
			return "", false
		}
		c := p.b[p.pos]
		switch {
		case c == '"':
			p.pos++
			return string(out), true
		case c < 0x20:
			return "", false
		case c == '\\':
			if p.pos+1 >= len(p.b) {
				return "", false
			}
			e := p.b[p.pos+1]
			p.pos += 2
			switch e {
			case '"', '\\', '/':
				out = append(out, e)
			case 'b':
				out = append(out, '\b')
			case 'f':
				out = append(out, '\f')
			case 'n':
				out = append(out, '\n')
			case 'r':
				out = append(out, '\r')
			case 't':
				out = append(out, '\t')
			case 'u':
				r, ok := p.hex4()
				if !ok {
					return "", false
				}
				if r >= 0xD800 && r < 0xDC00 {
					// high surrogate must be followed by \uDC00..DFFF
					if p.pos+1 < len(p.b) && p.b[p.pos] == '\\' && p.b[p.pos+1] == 'u' {
						p.pos += 2
						lo, ok := p.hex4()
						if !ok || lo < 0xDC00 || lo > 0xDFFF {
							return "", false
						}
						r = 0x10000 + (r-0xD800)<<10 + (lo - 0xDC00)
					} else {
						return "", false
					}
				} else if r >= 0xDC00 && r < 0xE000 {
					return "", false
				}
				out = AppendRune(out, r)
			default:
				return "", false
			}
		case c < 0x80:
			out = append(out, c)
			p.pos++
		default:
			n := refUTF8Len(p.b[p.pos:])
			if n == 0 {
				return "", false
			}
			out = append(out, p.b[p.pos:p.pos+n]...)
			p.pos += n
		}
	}
}

func (p *refJSON) hex4() (int, bool) {
	if p.pos+4 > len(p.b) {
		return 0, false
	}
	r := 0
	for i := 0; i < 4; i++ {
		h, ok := refHex(p.b[p.pos+i])
		if !ok {
			return 0, false
		}
		r = r<<4 | h
	}
	p.pos += 4
	return r, true
}

// refUTF8Len returns the length of the well-formed UTF-8 sequence at the
// start of b (Unicode table 3-7), or 0.
func refUTF8Len(b []byte) int {
	c := b[0]
	cont := func(i int, lo, hi byte) bool { return i < len(b) && b[i] >= lo && b[i] <= hi }
	switch {
	case c >= 0xC2 && c <= 0xDF:
		if cont(1, 0x80, 0xBF) {
			return 2
		}
	case c == 0xE0:
		if cont(1, 0xA0, 0xBF) && cont(2, 0x80, 0xBF) {
			return 3
		}
	case (c >= 0xE1 && c <= 0xEC) || c == 0xEE || c == 0xEF:
		if cont(1, 0x80, 0xBF) && cont(2, 0x80, 0xBF) {
			return 3
		}
	case c == 0xED:
		if cont(1, 0x80, 0x9F) && cont(2, 0x80, 0xBF) {
			return 3
		}
	case c == 0xF0:
		if cont(1, 0x90, 0xBF) && cont(2, 0x80, 0xBF) && cont(3, 0x80, 0xBF) {
			return 4
		}
	case c >= 0xF1 && c <= 0xF3:
		if cont(1, 0x80, 0xBF) && cont(2, 0x80, 0xBF) && cont(3, 0x80, 0xBF) {
			return 4
		}
	case c == 0xF4:
		if cont(1, 0x80, 0x8F) && cont(2, 0x80, 0xBF) && cont(3, 0x80, 0xBF) {
			return 4
		}
	}
	return 0
}

// ---------------------------------------------------------------------------
// ROR2: value := map | list | primitive
//   map  := '(' [ key ':' value { ',' key ':' value } ] ')'
//   list := "List(" [ value { ',' value } ] ')'
//   primitive := "''" | 1*( char other than ( ) , : ' )   percent-encoded

type refROR2 struct {
	b   []byte
	pos int
	ok  bool
}

func ParseROR2(doc string) (*Node, bool) {
	p := &refROR2{b: []byte(doc), ok: true}
	n := p.value(0)
	if !p.ok || p.pos != len(p.b) {
		return nil, false
	}
	return n, true
}

func (p *refROR2) token() (string, bool) {
	start := p.pos
	for p.pos < len(p.b) {
		c := p.b[p.pos]
		if c == '(' || c == ')' || c == ',' || c == ':' {
			break
		}
		p.pos++
	}
	raw := p.b[start:p.pos]
	if len(raw) == 0 {
		return "", false
	}
	if string(raw) == "''" {
		return "", true
	}
	var out []byte
	for i := 0; i < len(raw); i++ {
		c := raw[i]
		switch {
		case c == '\'':
			return "", false // a quote is reserved and must be percent-encoded
		case c == '%':
			if i+2 >= len(raw) {
				return "", false
			}
			h1, ok1 := refHex(raw[i+1])
			h2, ok2 := refHex(raw[i+2])
			if !ok1 || !ok2 {
				return "", false
			}
			out = append(out, byte(h1<<4|h2))
			i += 2
		default:
			out = append(out, c)
		}
	}
	return string(out), true
}

func (p *refROR2) value(depth int) *Node {
	if !p.ok || depth > 16 {
		p.ok = false
		return nil
	}
	if p.pos+5 <= len(p.b) && string(p.b[p.pos:p.pos+5]) == "List(" {
		p.pos += 5
		n := &Node{Kind: Array}
		if p.pos < len(p.b) && p.b[p.pos] == ')' {
			p.pos++
			return n
		}
		for {
			v := p.value(depth + 1)
			if !p.ok {
				return nil
			}
			n.Kids = append(n.Kids, v)
			if p.pos >= len(p.b) {
				p.ok = false
				return nil
			}
			if p.b[p.pos] == ',' {
				p.pos++
				continue
			}
			if p.b[p.pos] == ')' {
				p.pos++
				return n
			}
			p.ok = false
			return nil
		}
	}
	if p.pos < len(p.b) && p.b[p.pos] == '(' {
		p.pos++
		n := &Node{Kind: Object}
		if p.pos < len(p.b) && p.b[p.pos] == ')' {
			p.pos++
			return n
		}
		for {
			k, ok := p.token()
			if !ok || p.pos >= len(p.b) || p.b[p.pos] != ':' {
				p.ok = false
				return nil
			}
			p.pos++
			v := p.value(depth + 1)
			if !p.ok {
				return nil
			}
			n.Keys = append(n.Keys, k)
			n.Kids = append(n.Kids, v)
			if p.pos >= len(p.b) {
				p.ok = false
				return nil
			}
			if p.b[p.pos] == ',' {
				p.pos++
				continue
			}
			if p.b[p.pos] == ')' {
				p.pos++
				return n
			}
			p.ok = false
			return nil
		}
	}
	s, ok := p.token()
	if !ok {
		p.ok = false
		return nil
	}
	return &Node{Kind: String, S: s}
}

// ReducedEscape is the protocol's "reduced" encoding of a string as it must
// appear inside headers and JSON bodies (X-RestLi-Id, keys of batch response
// maps): only the characters reserved by the ROR2 grammar - ( ) , ' : - and
// the escape character % itself are percent-encoded (upper-case hex), every
// other byte stays literal, and the empty string is written ''. Written from
// the protocol description; shares no code with the library.
func ReducedEscape(s string) string {
	if s == "" {
		return "''"
	}
	const hex = "0123456789ABCDEF"
	out := make([]byte, 0, len(s)+4)
	for i := 0; i < len(s); i++ {
		c := s[i]
		if c == '(' || c == ')' || c == ',' || c == '\'' || c == ':' || c == '%' {
			out = append(out, '%', hex[c>>4], hex[c&15])
		} else {
			out = append(out, c)
		}
	}
	return string(out)
}

// UpperHex rewrites the two hex digits after every % in upper case: the case
// of percent-encoding digits is not significant (RFC 3986 section 2.1), so
// output is normalised with it before being compared with ReducedEscape.
func UpperHex(s string) string {
	out := []byte(s)
	for i := 0; i+2 < len(out); i++ {
		if out[i] == '%' {
			for j := i + 1; j <= i+2; j++ {
				if out[j] >= 'a' && out[j] <= 'f' {
					out[j] -= 'a' - 'A'
				}
			}
			i += 2
		}
	}
	return string(out)
}
