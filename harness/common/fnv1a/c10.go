package fnv1a

import (
	"math"

	verif "MODULE/zzverif"
)

// C10 (hash side): values that compare equal hash equal; map hashing does not
// depend on iteration order.

func Harness_C10_Float64Hash() {
	x, y := verif.Float64(), verif.Float64()
	// Case split on the bit patterns first so that each query is either
	// "same bits" (congruence) or "different bits yet equal" (only +0/-0).
	if math.Float64bits(x) == math.Float64bits(y) {
		verif.Assume(x == x) // not NaN
		verif.Cover("same-bits")
	} else {
		verif.Assume(x == y) // Go float equality: +0 == -0
		verif.Cover("different-bits-equal")
	}
	verif.Assert(HashFloat64(x).Equals(HashFloat64(y)), "equal float64 values hash differently")
}

func Harness_C10_Float32Hash() {
	x, y := verif.Float32(), verif.Float32()
	if math.Float32bits(x) == math.Float32bits(y) {
		verif.Assume(x == x)
		verif.Cover("same-bits")
	} else {
		verif.Assume(x == y)
		verif.Cover("different-bits-equal")
	}
	verif.Assert(HashFloat32(x).Equals(HashFloat32(y)), "equal float32 values hash differently")
}

func Harness_C10_ScalarHash() {
	a, b := verif.Int64(), verif.Int64()
	c, d := verif.Int32(), verif.Int32()
	p, q := verif.Bool(), verif.Bool()
	verif.Assume(a == b)
	verif.Assume(c == d)
	verif.Assume(p == q)
	verif.Assert(HashInt64(a).Equals(HashInt64(b)), "int64 hash")
	verif.Assert(HashInt32(c).Equals(HashInt32(d)), "int32 hash")
	verif.Assert(HashBool(p).Equals(HashBool(q)), "bool hash")
	h1, h2 := NewHash(), NewHash()
	h1.AddInt64(a)
	h1.AddInt32(c)
	h1.AddBool(p)
	h2.AddInt64(b)
	h2.AddInt32(d)
	h2.AddBool(q)
	verif.Assert(h1.Equals(h2), "combined hash")
	verif.Assert(h1.MapKey() == h2.MapKey(), "map key")
	verif.Cover("hashed")
}

func Harness_C10_StringHash(n int) {
	s, t := verif.String(n), verif.String(n)
	verif.Assume(s == t)
	verif.Assert(HashString(s).Equals(HashString(t)), "equal strings hash differently")
	verif.Assert(HashBytes([]byte(s)).Equals(HashString(t)), "bytes and string of the same content hash differently")
	verif.Cover("hashed")
}

// Harness_C10_MapHash: a map of n entries with symbolic 1-byte keys, hashed
// under two independently chosen iteration orders. Values are concrete
// (i*7-3): with symbolic 32-bit values the "two entry hashes collide" branch
// asks the solver for equality of two 9-round multiply chains, which z3 4.8,
// z3 5.1 and cvc5 all leave undecided at 120 s (probed).
func Harness_C10_MapHash(n int) {
	m := map[string]int32{}
	for i := 0; i < n; i++ {
		k := verif.String(1)
		_, dup := m[k]
		verif.Assume(!dup)
		m[k] = int32(i*7 - 3)
	}
	add := func(h Hash, v int32) { h.AddInt32(v) }
	verif.MapOrder(true)
	h1 := NewHash()
	AddMap(h1, m, add)
	h2 := NewHash()
	AddMap(h2, m, add)
	verif.MapOrder(false)
	verif.Assert(h1.Equals(h2), "map hash depends on iteration order")
	verif.Cover("hashed")
}

func Harness_C10_Twin() {
	x, y := verif.Float64(), verif.Float64()
	verif.Assume(!math.IsNaN(x))
	verif.Assert(HashFloat64(x).Equals(HashFloat64(y)), "twin: different floats hash differently")
}
