package utils

import (
	"errors"
	"io/fs"
	"os"
	"path/filepath"
	"sort"
	"strings"

	verif "MODULE/zzverif"
)

// C20: CleanTargetDir against a directory tree chosen by the solver.
//
// In the engine os.ReadDir / os.Stat / os.Remove / os.IsNotExist are replaced
// by the ZZStub_* functions below, which operate on an in-memory tree and
// check every removal as it happens. Compiled natively the same harness
// materialises the tree in a temporary directory and runs the real calls; the
// final-state assertions are shared, which is what the differential replay
// compares.

type c20Node struct {
	name     string
	dir      bool
	children []*c20Node
	gone     bool
	// bookkeeping for the oracle
	hadChildren bool
}

var (
	c20Cwd     *c20Node // the working directory of the stub file system
	c20Removes int
)

// a missing path is reported the way package os reports it: an error that is
// fs.ErrNotExist under errors.Is and under os.IsNotExist
var c20ErrNotExist error = &fs.PathError{Op: "stub", Path: "?", Err: fs.ErrNotExist}
var c20ErrNotEmpty = errors.New("stub: directory not empty")

// the stub's current directory has an absolute name too, so that a rewrite
// which resolves its target with filepath.Abs / os.Getwd is still decided
const c20CwdPath = "/zzcwd"

func ZZStub_os_Getwd() (string, error) { return c20CwdPath, nil }

func c20Find(path string) (parent, n *c20Node) {
	n = c20Cwd
	if path == c20CwdPath {
		return nil, n
	}
	if strings.HasPrefix(path, c20CwdPath+"/") {
		path = path[len(c20CwdPath)+1:]
	} else if strings.HasPrefix(path, "/") {
		return nil, nil
	}
	if path == "." || path == "" {
		return nil, n
	}
	for _, seg := range strings.Split(path, "/") {
		if seg == "." || seg == "" {
			continue
		}
		if n == nil || !n.dir {
			return nil, nil
		}
		parent = n
		var next *c20Node
		for _, c := range n.children {
			if !c.gone && c.name == seg {
				next = c
			}
		}
		n = next
	}
	return parent, n
}

type c20Entry struct{ n *c20Node }

func (e c20Entry) Name() string { return e.n.name }
func (e c20Entry) IsDir() bool  { return e.n.dir }
func (e c20Entry) Type() fs.FileMode {
	if e.n.dir {
		return fs.ModeDir
	}
	return 0
}
func (e c20Entry) Info() (fs.FileInfo, error) { return nil, errors.New("stub: no file info") }

func ZZStub_os_ReadDir(name string) ([]os.DirEntry, error) {
	_, n := c20Find(name)
	if n == nil {
		return nil, c20ErrNotExist
	}
	if !n.dir {
		return nil, errors.New("stub: not a directory")
	}
	var out []os.DirEntry
	for _, c := range n.children {
		if !c.gone {
			out = append(out, c20Entry{c})
		}
	}
	sort.Slice(out, func(i, j int) bool { return out[i].Name() < out[j].Name() })
	return out, nil
}

func ZZStub_os_Stat(name string) (os.FileInfo, error) {
	_, n := c20Find(name)
	if n == nil {
		return nil, c20ErrNotExist
	}
	return nil, nil
}

func ZZStub_os_IsNotExist(err error) bool { return err != nil && errors.Is(err, fs.ErrNotExist) }

func c20Owned(name string) bool {
	return strings.HasSuffix(name, GeneratedFileSuffix) || name == c20Manifest
}

func ZZStub_os_Remove(name string) error {
	_, n := c20Find(name)
	if n == nil {
		return c20ErrNotExist
	}
	if n.dir {
		for _, c := range n.children {
			if !c.gone {
				return c20ErrNotEmpty
			}
		}
		verif.Assert(n != c20Cwd, "removed the current directory")
	} else {
		// the property: only generator-owned files are ever removed
		verif.Assert(c20Owned(n.name), "removed a file the generator does not own: "+name)
	}
	n.gone = true
	c20Removes++
	return nil
}

// RemoveAll and Lstat are not used by the code as it stands; they are modelled
// so that a rewrite which reaches for them is still decided rather than left
// inconclusive. RemoveAll removes a whole subtree, file by file.
func c20RemoveTree(n *c20Node, path string) {
	if n.dir {
		for _, c := range n.children {
			if !c.gone {
				c20RemoveTree(c, path+"/"+c.name)
			}
		}
		verif.Assert(n != c20Cwd, "removed the current directory")
	} else {
		verif.Assert(c20Owned(n.name), "removed a file the generator does not own: "+path)
	}
	n.gone = true
	c20Removes++
}

func ZZStub_os_RemoveAll(name string) error {
	_, n := c20Find(name)
	if n == nil {
		return nil // RemoveAll of a missing path is not an error
	}
	c20RemoveTree(n, name)
	return nil
}

func ZZStub_os_Lstat(name string) (os.FileInfo, error) { return ZZStub_os_Stat(name) }

// kinds of entries
const (
	kGenerated = iota
	kManifest
	kUserGo
	kOther
	kEmptyDir
	kDir
	c20Kinds
)

func c20Build(depth, width int, prefix string) []*c20Node {
	n := verif.Choose(width + 1)
	var out []*c20Node
	for i := 0; i < n; i++ {
		kinds := c20Kinds
		if depth <= 1 {
			kinds = kDir // no nested non-empty dirs at the last level
		}
		k := verif.Choose(kinds)
		base := prefix + string(rune('a'+i))
		switch k {
		case kGenerated:
			out = append(out, &c20Node{name: base + GeneratedFileSuffix})
		case kManifest:
			// at most one per directory
			dup := false
			for _, o := range out {
				if o.name == c20Manifest {
					dup = true
				}
			}
			verif.Assume(!dup)
			out = append(out, &c20Node{name: c20Manifest})
		case kUserGo:
			out = append(out, &c20Node{name: base + ".go"})
		case kOther:
			out = append(out, &c20Node{name: base + ".gr.go.txt"})
		case kEmptyDir:
			out = append(out, &c20Node{name: base, dir: true})
		case kDir:
			d := &c20Node{name: base, dir: true}
			d.children = c20Build(depth-1, width, "")
			verif.Assume(len(d.children) > 0)
			d.hadChildren = true
			out = append(out, d)
		}
	}
	return out
}

func c20Materialise(dir string, nodes []*c20Node) {
	for _, n := range nodes {
		p := filepath.Join(dir, n.name)
		if n.dir {
			if err := os.Mkdir(p, 0o755); err != nil {
				panic(err)
			}
			c20Materialise(p, n.children)
		} else if err := os.WriteFile(p, []byte(n.name), 0o644); err != nil {
			panic(err)
		}
	}
}

// c20Sync marks nodes gone according to the real file system (native mode).
func c20Sync(dir string, nodes []*c20Node) {
	for _, n := range nodes {
		p := filepath.Join(dir, n.name)
		if _, err := os.Lstat(p); err != nil {
			n.gone = true
			c20MarkGone(n.children)
			continue
		}
		if n.dir {
			c20Sync(p, n.children)
		} else {
			b, err := os.ReadFile(p)
			verif.Assert(err == nil && string(b) == n.name, "a surviving file was modified")
		}
	}
}

func c20MarkGone(nodes []*c20Node) {
	for _, n := range nodes {
		n.gone = true
		c20MarkGone(n.children)
	}
}

// c20Check asserts the final state of a subtree and reports whether anything survives.
func c20Check(nodes []*c20Node, atRoot bool) (survivors int) {
	for _, n := range nodes {
		if !n.dir {
			switch {
			case strings.HasSuffix(n.name, GeneratedFileSuffix):
				verif.Assert(n.gone, "a generated file survived cleaning")
			case n.name == c20Manifest:
				// the manifest is the generator's own file wherever it lies (with a
				// package root it is written below the output directory): it is
				// removed at every level, otherwise the directories above it survive
				// and the next generation cannot rewrite the read-only file
				if atRoot {
					verif.Assert(n.gone, "the manifest survived cleaning")
				} else {
					verif.Assert(n.gone, "a manifest below the target directory survived cleaning")
				}
			default:
				verif.Assert(!n.gone, "a file the generator does not own was removed: "+n.name)
			}
			if !n.gone {
				survivors++
			}
			continue
		}
		inner := c20Check(n.children, false)
		if inner > 0 {
			verif.Assert(!n.gone, "a non-empty directory was removed")
		} else if n.hadChildren {
			verif.Assert(n.gone, "a directory emptied by cleaning was left behind")
		}
		// a directory that was empty from the start: either outcome accepted
		if !n.gone {
			survivors++
		}
	}
	return survivors
}

// Harness_C20_Clean: target 0 = a named directory, 1 = ".", 2 = missing.
func Harness_C20_Clean(depth, width, target int) {
	var nodes []*c20Node
	if target != 2 {
		nodes = c20Build(depth, width, "")
	}
	for _, n := range nodes {
		if n.dir && len(n.children) > 0 {
			n.hadChildren = true
		}
	}
	root := &c20Node{name: "t", dir: true, children: nodes}
	targetPath := "t"
	native := verif.Native()
	var tmp, oldwd string
	if native {
		var err error
		tmp, err = os.MkdirTemp("", "c20-")
		if err != nil {
			panic(err)
		}
		oldwd, _ = os.Getwd()
		defer func() { os.Chdir(oldwd); os.RemoveAll(tmp) }()
	}
	switch target {
	case 0:
		c20Cwd = &c20Node{name: "", dir: true, children: []*c20Node{root}}
		if native {
			os.Mkdir(filepath.Join(tmp, "t"), 0o755)
			c20Materialise(filepath.Join(tmp, "t"), nodes)
			os.Chdir(tmp)
		}
	case 1:
		targetPath = "."
		c20Cwd = root
		if native {
			c20Materialise(tmp, nodes)
			os.Chdir(tmp)
		}
	case 2:
		c20Cwd = &c20Node{name: "", dir: true}
		if native {
			os.Chdir(tmp)
		}
	}
	c20Removes = 0
	err := CleanTargetDir(targetPath)
	verif.Assert(err == nil, "CleanTargetDir failed on a well-formed tree")
	verif.Cover("cleaned")
	if native {
		base := tmp
		if target == 0 {
			base = filepath.Join(tmp, "t")
			if _, e := os.Lstat(base); e != nil {
				root.gone = true
			}
		}
		if !root.gone {
			c20Sync(base, nodes)
		} else {
			c20MarkGone(nodes)
		}
	}
	survivors := c20Check(nodes, true)
	switch target {
	case 0:
		if survivors > 0 {
			verif.Assert(!root.gone, "target removed although user files remain")
		} else if len(nodes) > 0 {
			verif.Assert(root.gone, "target emptied by cleaning but left behind")
		}
	case 1:
		verif.Assert(!root.gone, "the current directory was removed")
	}
	// idempotence: a second run changes nothing
	before := c20Removes
	err = CleanTargetDir(targetPath)
	verif.Assert(err == nil, "second CleanTargetDir failed")
	if !native {
		verif.Assert(c20Removes == before, "second run removed something")
	} else if !root.gone || target == 1 {
		base := tmp
		if target == 0 {
			base = filepath.Join(tmp, "t")
		}
		snapshot := c20Count(nodes)
		c20Sync(base, nodes)
		verif.Assert(c20Count(nodes) == snapshot, "second run removed something")
	}
	verif.Cover("idempotent")
}

func c20Count(nodes []*c20Node) int {
	c := 0
	for _, n := range nodes {
		if !n.gone {
			c++
		}
		c += c20Count(n.children)
	}
	return c
}

// Harness_C20_Names: one file whose 6-byte name is symbolic (any bytes a file
// name may hold) next to a user file: it is removed iff it really carries the
// generated-code suffix.
func Harness_C20_Names() {
	// names around the generated-code suffix ".gr.go": the two separator
	// positions are arbitrary bytes, optionally behind a one-byte stem
	sep := verif.String(2)
	name := string(sep[0]) + "gr" + string(sep[1]) + "go"
	if verif.Bool() {
		name = "m" + name
	}
	for i := 0; i < len(name); i++ {
		verif.Assume(name[i] != '/' && name[i] != 0)
	}
	nodes := []*c20Node{{name: name}, {name: "keep.x"}}
	root := &c20Node{name: "t", dir: true, children: nodes}
	c20Cwd = &c20Node{name: "", dir: true, children: []*c20Node{root}}
	native := verif.Native()
	var tmp, oldwd string
	if native {
		var err error
		tmp, err = os.MkdirTemp("", "c20n-")
		if err != nil {
			panic(err)
		}
		oldwd, _ = os.Getwd()
		defer func() { os.Chdir(oldwd); os.RemoveAll(tmp) }()
		os.Mkdir(filepath.Join(tmp, "t"), 0o755)
		c20Materialise(filepath.Join(tmp, "t"), nodes)
		os.Chdir(tmp)
	}
	c20Removes = 0
	err := CleanTargetDir("t")
	verif.Assert(err == nil, "CleanTargetDir failed")
	if native {
		c20Sync(filepath.Join(tmp, "t"), nodes)
	}
	owned := strings.HasSuffix(name, ".gr.go")
	verif.Assert(nodes[0].gone == owned, "a file was removed although its name does not end in the generated-code suffix (or a generated file survived): "+name)
	verif.Assert(!nodes[1].gone, "the user file was removed")
	if owned {
		verif.Cover("owned")
	} else {
		verif.Cover("not-owned")
	}
}

func Harness_C20_Twin(width int) {
	nodes := c20Build(1, width, "")
	c20Cwd = &c20Node{name: "", dir: true, children: []*c20Node{{name: "t", dir: true, children: nodes}}}
	c20Removes = 0
	if verif.Native() {
		// natively the stubs are not active: decide on the model alone
		for _, n := range nodes {
			if c20Owned(n.name) || n.dir {
				c20Removes++
			}
		}
	} else {
		_ = CleanTargetDir("t")
	}
	verif.Assert(c20Removes == 0, "twin: some tree has something to remove")
}
