package d2

import (
	"math/rand"
	"net/url"

	verif "MODULE/zzverif"
)

// C19: (a) one inductive step of the announcement fold from an arbitrary
// snapshot; (b) host selection over arbitrary weights.

const c19ZkPath = "/d2/uris/c"

// The payload menu. In the engine encoding/json (reflection) is replaced by
// ZZStub_encoding_json_Unmarshal, a table over exactly these documents; the
// native replay runs the real decoder on the same bytes, which validates the
// table.
var c19Docs = []string{
	`{`,                                      // malformed
	`{"weights":{}}`,                         // weight-less (partition-only) announcement
	`{"weights":{"http://h1:80":1.5}}`,       // one host
	`{"weights":{"https://h2:443":0,"http://h3:80":2}}`, // two hosts, one with zero weight
	`{"weights":{"https://h4:443":0}}`,                  // one host announced with weight zero
	``,                                                  // a zero-length payload: malformed (an update, not a removal)
}

type c19SyntaxError struct{}

func (c19SyntaxError) Error() string { return "stub: malformed JSON" }

func c19MustParse(s string) url.URL {
	u, err := url.Parse(s)
	if err != nil {
		panic(err)
	}
	return *u
}

func ZZStub_encoding_json_Unmarshal(data []byte, v interface{}) error {
	doc := -1
	for i, d := range c19Docs {
		if string(data) == d {
			doc = i
		}
	}
	if doc < 0 {
		panic("json stub: document outside the menu: " + string(data))
	}
	if doc == 0 || doc == 5 {
		return c19SyntaxError{}
	}
	switch u := v.(type) {
	case *Uri:
		u.Weights = make(map[url.URL]float64)
		u.Properties = make(map[url.URL]UriProperty)
		u.PartitionDesc = make(map[url.URL]map[int]float64)
		switch doc {
		case 2:
			u.Weights[c19MustParse("http://h1:80")] = 1.5
		case 3:
			u.Weights[c19MustParse("https://h2:443")] = 0
			u.Weights[c19MustParse("http://h3:80")] = 2
		case 4:
			u.Weights[c19MustParse("https://h4:443")] = 0
		}
		return nil
	}
	panic("json stub: unexpected target type")
}

var c19Nodes = []string{"/n1", "/n2", "/n3"}

func Harness_C19_Fold() {
	pre := &serviceUris{zkPath: c19ZkPath, uris: map[string]*Uri{}}
	payload := map[string]*Uri{}
	for _, n := range c19Nodes {
		if verif.Bool() {
			u := &Uri{Weights: map[url.URL]float64{c19MustParse("http://old" + n): 1}}
			pre.uris[n] = u
			payload[n] = u
		}
	}
	// the event
	var ev TreeCacheEvent
	target := verif.Choose(len(c19Nodes) + 1)
	if target == len(c19Nodes) {
		ev.Path = c19ZkPath // the watch root itself
	} else {
		ev.Path = c19ZkPath + c19Nodes[target]
	}
	kind := verif.Choose(len(c19Docs) + 1)
	if kind < len(c19Docs) {
		b := []byte(c19Docs[kind])
		ev.Data = &b
	}
	c := &Client{}
	post := c.handleUriUpdate(pre, ev)
	verif.Cover("stepped")

	// copy-on-write: the snapshot handed in is never modified
	verif.Assert(len(pre.uris) == len(payload), "the earlier snapshot changed size")
	for n, u := range payload {
		verif.Assert(pre.uris[n] == u, "the earlier snapshot was modified")
	}

	// the fold step
	for i, n := range c19Nodes {
		got, ok := post.uris[n]
		old, had := payload[n]
		if ev.Path == c19ZkPath || i != target {
			verif.Assert(ok == had && got == old, "an update touched another node")
			continue
		}
		switch {
		case ev.Data == nil: // deletion
			verif.Assert(!ok, "a deleted node is still announced")
		case kind == 0 || kind == 1 || kind == 5: // malformed (also a zero-length payload) or weight-less: ignored
			verif.Assert(ok == had && got == old, "a malformed or weight-less update was not ignored")
		default:
			verif.Assert(ok && got != old, "a valid update was not applied")
			wantHosts := []int{0, 0, 1, 2, 1, 0}[kind]
			verif.Assert(len(got.Weights) == wantHosts, "the applied announcement does not carry the payload's hosts")
			for h := range got.Weights {
				verif.Assert(h.Host != "old"+c19Nodes[target][1:] && h.Host != "old", "the announcement still lists the old host")
			}
		}
	}
	n := 0
	for range post.uris {
		n++
	}
	want := len(payload)
	if ev.Path != c19ZkPath {
		_, had := payload[c19Nodes[target]]
		switch {
		case ev.Data == nil && had:
			want--
		case kind >= 2 && kind <= 4 && !had:
			want++
		}
	}
	verif.Assert(n == want, "announcement set has the wrong size after the step")
	if post != pre {
		verif.Cover("new-snapshot")
	}
}

// c19Source makes rng.Float64() return exactly v / 2^53.
type c19Source struct{ v int64 }

func (s *c19Source) Int63() int64 { return s.v }
func (s *c19Source) Seed(int64)   {}

var c19R = []int64{0, 1, 1 << 51, 1 << 52, 3 << 51, (1 << 53) - 1}

var c19Hosts = []string{"http://a:1", "https://b:2", "http://c:3"}

// Harness_C19_Choose: nh hosts spread over two announcements, weights are
// arbitrary finite float64 values in [0,1000], the random draw is one of a
// fixed set of values in [0,1) (0, the smallest and the largest among them),
// prioritized schemes are a solver-chosen list, map iteration order is
// solver-chosen.
func Harness_C19_Choose(nh int) {
	uris := &serviceUris{zkPath: c19ZkPath, uris: map[string]*Uri{}}
	weights := make([]float64, nh)
	for i := 0; i < nh; i++ {
		w := verif.Float64()
		verif.Assume(w >= 0)
		verif.Assume(w <= 1000)
		weights[i] = w
		// which announcement carries the host is solver-chosen, so that one
		// announcement can mix schemes and weights
		node := c19Nodes[verif.Choose(2)]
		u := uris.uris[node]
		if u == nil {
			u = &Uri{Weights: map[url.URL]float64{}}
			uris.uris[node] = u
		}
		u.Weights[c19MustParse(c19Hosts[i])] = w
	}
	var schemes []string
	switch verif.Choose(5) {
	case 1:
		schemes = []string{"https"}
	case 2:
		schemes = []string{"http"}
	case 3:
		schemes = []string{"https", "http"}
	case 4:
		schemes = []string{"ftp", "http"}
	}
	rng = rand.New(&c19Source{v: c19R[verif.Choose(len(c19R))]})
	verif.MapOrder(true)
	got := uris.chooseHost(schemes)
	verif.MapOrder(false)
	verif.Cover("chosen")

	// expected scheme: the first prioritized scheme that has any host
	wantScheme := ""
	for _, s := range schemes {
		for i := 0; i < nh; i++ {
			if wantScheme == "" && c19MustParse(c19Hosts[i]).Scheme == s {
				wantScheme = s
			}
		}
	}
	eligible, positive := 0, 0
	for i := 0; i < nh; i++ {
		sc := c19MustParse(c19Hosts[i]).Scheme
		if len(schemes) == 0 || sc == wantScheme {
			eligible++
			if weights[i] > 0 {
				positive++
			}
		}
	}
	if eligible == 0 {
		verif.Assert(got == nil, "a host was returned although none is eligible")
		verif.Cover("none-eligible")
		return
	}
	if got == nil {
		verif.Assert(positive == 0, "no host returned although an eligible host with positive weight exists")
		return
	}
	idx := -1
	for i := 0; i < nh; i++ {
		if got.String() == c19Hosts[i] {
			idx = i
		}
	}
	verif.Assert(idx >= 0, "the returned host was never announced")
	if len(schemes) > 0 {
		verif.Assert(got.Scheme == wantScheme, "the returned host does not have the highest-priority scheme that has hosts")
	}
	if positive > 0 {
		verif.Assert(weights[idx] > 0, "a zero-weight host was returned although an eligible host with positive weight exists")
	}
	verif.Cover("host-checked")
}

func Harness_C19_Twin() {
	uris := &serviceUris{zkPath: c19ZkPath, uris: map[string]*Uri{"/n1": {Weights: map[url.URL]float64{c19MustParse(c19Hosts[0]): 1}}}}
	rng = rand.New(&c19Source{v: c19R[verif.Choose(len(c19R))]})
	verif.Assert(uris.chooseHost([]string{"https"}) != nil, "twin: https requested but only http announced")
}
