package d2

import (
	"net/url"

	verif "MODULE/zzverif"
)

// C17 for the D2 resolver: concurrent host selection and announcement
// handling on one Client are free of data races (engine happens-before
// detector over solver-chosen schedules; the package's files are compiled
// against zzsync) and every selection returns an announced host.
//
// The harness keeps one result slot per thread and no other shared state, so
// that any race reported lies in the code under test.

func c17Uris() *serviceUris {
	return &serviceUris{zkPath: c19ZkPath, uris: map[string]*Uri{
		"/n1": {Weights: map[url.URL]float64{c19MustParse("http://a:1"): 1, c19MustParse("https://b:2"): 2}},
	}}
}

// Harness_C17_D2: scenario 0: two goroutines select a host from the same
// published snapshot; 1: one selects through the client's map while another
// applies an announcement (solver-chosen payload) and publishes the result;
// 2: two appliers and a selector.
func Harness_C17_D2(scenario, bound int) {
	c := &Client{}
	c.uris.Store("cl", c17Uris())
	var got [3]*url.URL
	var seen [3]int
	choose := func(slot int) func() {
		return func() {
			u, ok := c.uris.Load("cl")
			if !ok {
				return
			}
			su := u.(*serviceUris)
			seen[slot] = len(su.uris)
			got[slot] = su.chooseHost(nil)
		}
	}
	apply := func(node string, doc int) func() {
		data := []byte(c19Docs[doc])
		return func() {
			u, _ := c.uris.Load("cl")
			c.uris.Store("cl", c.handleUriUpdate(u.(*serviceUris), TreeCacheEvent{Path: c19ZkPath + node, Data: &data}))
		}
	}
	remove := func(node string) func() {
		return func() {
			u, _ := c.uris.Load("cl")
			c.uris.Store("cl", c.handleUriUpdate(u.(*serviceUris), TreeCacheEvent{Path: c19ZkPath + node}))
		}
	}
	verif.RaceDetect(true)
	switch scenario {
	case 0:
		verif.Go(choose(0))
		verif.Go(choose(1))
	case 1:
		verif.Go(choose(0))
		if verif.Bool() {
			verif.Go(apply("/n2", 1+verif.Choose(4)))
		} else {
			verif.Go(remove("/n1"))
		}
	default:
		verif.Go(choose(0))
		verif.Go(apply("/n1", 2+verif.Choose(3)))
		verif.Go(remove("/n1"))
	}
	verif.RunThreads(bound)
	verif.RaceDetect(false)
	for slot, h := range got {
		if h != nil {
			verif.Assert(h.Host != "", "a selection returned a host that was never announced")
			verif.Cover("selected")
		}
		_ = seen[slot]
	}
	verif.Cover("ran")
}
