package lazymap

import (
	"fmt"

	zzverif "MODULE/zzverif"
)

// C18: every interleaving of LoadOrStore / Load / Store on the real
// LazySyncMap (compiled against zzsync, so each sync.Map and WaitGroup
// operation is a scheduling point, as is the inside of the compute function)
// yields a history that is linearizable with respect to a plain map with
// compute-if-absent. The schedule and the operations are solver-chosen.

const (
	c18LoadOrStore = iota
	c18Load
	c18Store
)

type c18op struct {
	thread, kind, key, val int
	inv, resp              int
	ret                    int
	ok, ran                bool
}

func (o *c18op) String() string {
	switch o.kind {
	case c18LoadOrStore:
		return fmt.Sprintf("T%d LoadOrStore(k%d,%d)=%d ran=%v [%d,%d]", o.thread, o.key, o.val, o.ret, o.ran, o.inv, o.resp)
	case c18Load:
		return fmt.Sprintf("T%d Load(k%d)=%d,%v [%d,%d]", o.thread, o.key, o.ret, o.ok, o.inv, o.resp)
	}
	return fmt.Sprintf("T%d Store(k%d,%d) [%d,%d]", o.thread, o.key, o.val, o.inv, o.resp)
}

type c18run struct {
	m        LazySyncMap
	clock    int
	ops      []*c18op
	computes [2]int
}

// asInt fails the check when a caller is handed anything but a published value.
func c18AsInt(v interface{}, what string) int {
	n, ok := v.(int)
	if !ok {
		zzverif.Fail(fmt.Sprintf("%s returned %T instead of a published value", what, v))
	}
	return n
}

func (r *c18run) do(o *c18op) {
	r.clock++
	o.inv = r.clock
	switch o.kind {
	case c18LoadOrStore:
		v := r.m.LoadOrStore(o.key, func() interface{} {
			o.ran = true
			r.computes[o.key]++
			zzverif.Yield() // the computation takes time: others may run
			return o.val
		})
		o.ret = c18AsInt(v, "LoadOrStore")
	case c18Load:
		v, ok := r.m.Load(o.key)
		o.ok = ok
		if ok {
			o.ret = c18AsInt(v, "Load")
		} else if v != nil {
			zzverif.Fail("Load returned a value with ok=false")
		}
	case c18Store:
		r.m.Store(o.key, o.val)
	}
	r.clock++
	o.resp = r.clock
}

// apply runs o against the specification state (0 = absent) and reports
// whether its observed results agree.
func c18Apply(state *[2]int, o *c18op) bool {
	switch o.kind {
	case c18LoadOrStore:
		if state[o.key] == 0 {
			if !o.ran || o.ret != o.val {
				return false
			}
			state[o.key] = o.val
			return true
		}
		return !o.ran && o.ret == state[o.key]
	case c18Load:
		if state[o.key] == 0 {
			return !o.ok
		}
		return o.ok && o.ret == state[o.key]
	}
	state[o.key] = o.val
	return true
}

func c18Linearizable(ops []*c18op) bool {
	n := len(ops)
	used := make([]bool, n)
	var state [2]int
	var rec func(done int) bool
	rec = func(done int) bool {
		if done == n {
			return true
		}
		for i := range ops {
			if used[i] {
				continue
			}
			first := true
			for j := range ops {
				if !used[j] && j != i && ops[j].resp < ops[i].inv {
					first = false
					break
				}
			}
			if !first {
				continue
			}
			saved := state
			if c18Apply(&state, ops[i]) {
				used[i] = true
				if rec(done + 1) {
					return true
				}
				used[i] = false
			}
			state = saved
		}
		return false
	}
	return rec(0)
}

func c18History(ops []*c18op) string {
	s := ""
	for _, o := range ops {
		s += o.String() + "; "
	}
	return s
}

// c18Explore builds nthreads x nops solver-chosen operations over nkeys (1 or 2) keys,
// runs them under a solver-chosen schedule with at most bound preemptions
// (bound < 0: every schedule), reads both keys afterwards, and returns the
// complete history.
func c18Explore(nthreads, nops, bound, nkeys int) *c18run {
	r := &c18run{}
	for t := 0; t < nthreads; t++ {
		t := t
		var mine []*c18op
		for k := 0; k < nops; k++ {
			o := &c18op{thread: t, kind: zzverif.Choose(3), val: 10*(t+1) + k + 1}
			if nkeys < 2 || (t == 0 && k == 0) {
				o.key = 0 // the two keys are interchangeable
			} else {
				o.key = zzverif.Choose(2)
			}
			mine = append(mine, o)
			r.ops = append(r.ops, o)
		}
		zzverif.Go(func() {
			for _, o := range mine {
				r.do(o)
			}
		})
	}
	zzverif.RunThreads(bound)
	// quiescence: a load of each key, in program order after everything
	for k := 0; k < 2; k++ {
		o := &c18op{thread: -1, kind: c18Load, key: k}
		r.do(o)
		r.ops = append(r.ops, o)
	}
	return r
}

func c18Overlap(ops []*c18op) bool {
	for i, a := range ops {
		for _, b := range ops[i+1:] {
			if a.inv < b.resp && b.inv < a.resp {
				return true
			}
		}
	}
	return false
}

func Harness_C18_Linearizable(nthreads, nops, bound, nkeys int) {
	r := c18Explore(nthreads, nops, bound, nkeys)
	for k, n := range r.computes {
		if n > 1 {
			zzverif.Fail(fmt.Sprintf("compute function for key k%d ran %d times: %s", k, n, c18History(r.ops)))
		}
	}
	if !c18Linearizable(r.ops) {
		zzverif.Fail("history is not linearizable w.r.t. a map with compute-if-absent: " + c18History(r.ops))
	}
	if c18Overlap(r.ops) {
		zzverif.Cover("overlap")
	}
	zzverif.Cover("lin")
}

// Harness_C18_Twin is the reachability witness: it must be able to fail,
// i.e. the exploration does reach histories in which operations overlap and
// in which a caller had to wait for another caller's computation.
func Harness_C18_Twin(nthreads, nops, bound, nkeys int) {
	r := c18Explore(nthreads, nops, bound, nkeys)
	waited := false
	for _, o := range r.ops {
		if o.kind == c18LoadOrStore && !o.ran {
			for _, p := range r.ops {
				if p != o && p.kind == c18LoadOrStore && p.ran && p.key == o.key && p.inv < o.resp && o.inv < p.resp {
					waited = true
				}
			}
		}
	}
	if c18Overlap(r.ops) && waited {
		zzverif.Fail("reached: overlapping operations with a caller served by a racing computation")
	}
}
