package restli

import (
	"context"
	"net/url"
	"strings"

	"MODULE/restlicodec"
	verif "MODULE/zzverif"
)

// C15: request URL construction. The resolver's base URL is assembled from
// choices over the property's context-path grammar; the resource path carries
// keys produced by the real path escaper from symbolic bytes; the query is
// produced by the real query escaper.

const c15Root = "root"

var c15Origins = []string{"http://h", "https://h:80", ""}

// context segments: other, root-with-suffix, proper prefix of root
var c15Segs = []string{"c", "rootx", "ro"}

// Harness_C15_Url: nseg context segments (0..3) before an optional final
// "root" segment, key of klen symbolic bytes, query value of qlen symbolic bytes.
func Harness_C15_Url(nseg, klen, qlen int) {
	origin := c15Origins[verif.Choose(len(c15Origins))]
	var segs []string
	for i := 0; i < nseg; i++ {
		segs = append(segs, c15Segs[verif.Choose(len(c15Segs))])
	}
	rootLast := verif.Bool()
	ctx := ""
	for _, s := range segs {
		ctx += "/" + s
	}
	wantCtx := ctx
	if rootLast {
		ctx += "/" + c15Root
	}
	trailing := verif.Bool()
	base := origin + ctx
	if trailing {
		base += "/"
	}
	if base == "" {
		base = "/"
	}
	hostUrl, err := url.Parse(base)
	verif.Assert(err == nil, "base URL does not parse")

	key := restlicodec.Ror2PathEscape(verif.String(klen))
	resource := "/" + c15Root
	shape := verif.Choose(3)
	switch shape {
	case 1:
		resource += "/" + key
	case 2:
		resource += "/" + key + "/sub"
	}
	var query QueryParamsEncoder
	wantQuery := ""
	if qlen >= 0 {
		wantQuery = "q=" + restlicodec.Ror2QueryEscape(verif.String(qlen))
		query = QueryParamsString(wantQuery)
	}

	c := &Client{HostnameResolver: &SimpleHostnameResolver{Hostname: hostUrl}}
	u, err := c.formatQueryUrl(ResourcePathString(resource), query)
	verif.Assert(err == nil, "formatQueryUrl failed on encoder output")
	verif.Cover("built")

	verif.Assert(u.Scheme == hostUrl.Scheme, "scheme changed")
	verif.Assert(u.Host == hostUrl.Host, "host changed")
	wantPath := wantCtx + resource
	verif.Assert(u.EscapedPath() == wantPath, "escaped path is not context + resource path: got "+u.EscapedPath()+" want "+wantPath)
	verif.Assert(u.RawQuery == wantQuery, "query changed")
	if origin != "" {
		full := origin + wantPath
		if wantQuery != "" {
			full += "?" + wantQuery
		}
		verif.Assert(u.String() == full, "URL text is not origin + path + query")
	}
	_ = strings.TrimSpace
}

// Harness_C15_Request: the URL of the request actually built (NewGetRequest),
// with tunnelling off or forced: the Rest.li-encoded path reaches the request
// byte for byte either way, and the query is in the URL iff the request is not
// tunnelled.
func Harness_C15_Request(klen, qlen int) {
	key := restlicodec.Ror2PathEscape(verif.String(klen))
	wantQuery := "q=" + restlicodec.Ror2QueryEscape(verif.String(qlen))
	hostUrl, _ := url.Parse("http://h:8080/ctx")
	threshold := []int{0, 1}[verif.Choose(2)]
	c := &Client{HostnameResolver: &SimpleHostnameResolver{Hostname: hostUrl}, QueryTunnellingThreshold: threshold}
	resource := "/root/" + key
	if verif.Bool() {
		resource += "/sub"
	}
	req, err := NewGetRequest(c, context.Background(), ResourcePathString(resource), QueryParamsString(wantQuery), Method_get)
	verif.Assert(err == nil && req != nil, "building the request failed on encoder output")
	tunnelled := req.Header.Get(MethodOverrideHeader) != ""
	verif.Assert(tunnelled == (threshold > 0 && len(wantQuery) > threshold), "tunnelling decision differs from the threshold rule")
	verif.Assert(req.URL.Scheme == "http" && req.URL.Host == "h:8080", "scheme or host changed")
	verif.Assert(req.URL.EscapedPath() == "/ctx"+resource, "the request's path is not the encoder's path: got "+req.URL.EscapedPath()+" want /ctx"+resource)
	if tunnelled {
		verif.Assert(req.URL.RawQuery == "" && req.URL.String() == "http://h:8080/ctx"+resource, "tunnelled request URL is not origin + path")
		verif.Cover("tunnelled")
	} else {
		verif.Assert(req.URL.RawQuery == wantQuery && req.URL.String() == "http://h:8080/ctx"+resource+"?"+wantQuery, "request URL is not origin + path + query")
		verif.Cover("plain")
	}
}

func Harness_C15_Twin(klen int) {
	key := restlicodec.Ror2PathEscape(verif.String(klen))
	hostUrl, _ := url.Parse("http://h/ctx")
	c := &Client{HostnameResolver: &SimpleHostnameResolver{Hostname: hostUrl}}
	u, err := c.formatQueryUrl(ResourcePathString("/root/"+key), nil)
	verif.Assert(err != nil || !strings.Contains(u.EscapedPath(), "%"), "twin: some key needs escaping")
}
