package equals

import (
	verif "MODULE/zzverif"
)

// C10 (equality helpers): reflexive, symmetric, insensitive to map insertion
// order and to nil versus empty, sensitive to every element.

func c10Map(n int) map[string]int32 {
	var m map[string]int32
	if verif.Bool() {
		m = map[string]int32{} // empty rather than nil
	}
	for i := 0; i < n; i++ {
		if m == nil {
			m = map[string]int32{}
		}
		k := verif.String(1)
		_, dup := m[k]
		verif.Assume(!dup)
		m[k] = verif.Int32()
	}
	return m
}

func Harness_C10_MapEquals(n int) {
	verif.MapOrder(true)
	a := c10Map(n)
	b := c10Map(n)
	eq := func(x, y int32) bool { return x == y }
	ab := GenericMap(a, b, eq)
	ba := GenericMap(b, a, eq)
	verif.Assert(ab == ba, "GenericMap is not symmetric")
	verif.Assert(GenericMap(a, a, eq), "GenericMap is not reflexive")
	verif.Assert(ComparableMap(a, b) == ab, "ComparableMap disagrees with GenericMap")
	// reference: same key set and same values
	same := len(a) == len(b)
	if same {
		for k, v := range a {
			w, ok := b[k]
			if !ok || v != w {
				same = false
			}
		}
	}
	verif.Assert(ab == same, "GenericMap disagrees with the reference comparison")
	verif.Cover("compared")
	if ab {
		verif.Cover("equal")
	}
}

func c10Slice(n int) []int64 {
	var s []int64
	if verif.Bool() {
		s = []int64{}
	}
	for i := 0; i < n; i++ {
		s = append(s, verif.Int64())
	}
	return s
}

func Harness_C10_ArrayEquals(n, m int) {
	a, b := c10Slice(n), c10Slice(m)
	ab := ComparableArray(a, b)
	verif.Assert(ab == ComparableArray(b, a), "ComparableArray is not symmetric")
	verif.Assert(ComparableArray(a, a), "ComparableArray is not reflexive")
	same := n == m
	if same {
		for i := range a {
			if a[i] != b[i] {
				same = false
			}
		}
	}
	verif.Assert(ab == same, "ComparableArray disagrees with the reference comparison")
	pa, pb := &a, &b
	if verif.Bool() {
		pa = nil
	}
	if verif.Bool() {
		pb = nil
	}
	pp := ComparableArrayPointer(pa, pb)
	want := (pa == nil && pb == nil) || (pa != nil && pb != nil && same)
	verif.Assert(pp == want, "ComparableArrayPointer: presence or content not distinguished")
	verif.Cover("compared")
}

func Harness_C10_BytesEquals(n, m int) {
	a, b := verif.Bytes(n), verif.Bytes(m)
	var an, bn []byte // nil
	verif.Assert(Bytes(a, b) == (string(a) == string(b)), "Bytes disagrees with content equality")
	verif.Assert(Bytes(an, bn), "nil bytes not equal to nil bytes")
	verif.Assert(Bytes(an, []byte{}), "nil and empty bytes differ")
	verif.Cover("compared")
}

// Harness_C10_ArrayAlias: two views of ONE backing array (what a shallow copy
// followed by an append into spare capacity, or a re-slice, produces): equal
// iff they have the same length, whatever the content, for every array
// comparison helper.
func Harness_C10_ArrayAlias() {
	backing := make([]int64, 4)
	for i := range backing {
		backing[i] = verif.Int64()
	}
	from := verif.Choose(2)
	i, j := from+verif.Choose(4-from+1), from+verif.Choose(4-from+1)
	a, b := backing[from:i], backing[from:j]
	want := i == j
	verif.Assert(ComparableArray(a, b) == want, "ComparableArray: views of one backing array with different lengths compare equal (or equal views do not)")
	verif.Assert(GenericArray(a, b, func(x, y int64) bool { return x == y }) == want, "GenericArray: views of one backing array with different lengths compare equal (or equal views do not)")
	verif.Assert(ComparableArrayPointer(&a, &b) == want, "ComparableArrayPointer on aliased views")
	bb := [][]byte{{1}, {2}, {3}}
	verif.Assert(BytesArray(bb[:1], bb[:2]) == false && BytesArray(bb[:2], bb[:2]), "BytesArray on aliased views")
	verif.Cover("compared")
}
