package restli

import (
	"bytes"
	"io"
	"net/http"
	"net/url"

	verif "MODULE/zzverif"
)

// C14: query tunnelling transparency at the Encode/Decode level.

var c14Verbs = []string{"GET", "PUT", "DELETE", "POST", "PATCH"}

func c14Request(verb, path, query string, body []byte) *http.Request {
	newBody, headers := EncodeTunnelledQuery(verb, query, body)
	req := &http.Request{
		Method: http.MethodPost,
		URL:    &url.URL{Path: path},
		Header: http.Header{},
		Body:   io.NopCloser(bytes.NewReader(newBody)),
	}
	for k := range headers {
		req.Header.Set(k, headers.Get(k))
	}
	req.Header.Set(ProtocolVersionHeader, ProtocolVersion)
	req.Header.Set(MethodHeader, "finder")
	return req
}

// Harness_C14_Form: no body; query of qlen symbolic bytes (all bytes, non-empty).
func Harness_C14_Form(qlen int) {
	verb := c14Verbs[verif.Choose(len(c14Verbs))]
	query := verif.String(qlen)
	req := c14Request(verb, "/root/k", query, nil)
	verif.Assert(req.Header.Get(MethodOverrideHeader) == verb, "override header does not carry the verb")
	err := DecodeTunnelledQuery(req)
	verif.Assert(err == nil, "decoding a tunnelled request failed")
	verif.Cover("decoded")
	verif.Assert(req.Method == verb, "verb not restored")
	verif.Assert(req.URL.RawQuery == query, "raw query not restored byte for byte")
	verif.Assert(req.URL.Path == "/root/k", "path changed")
	want := "/root/k"
	if query != "" {
		want += "?" + query
	}
	verif.Assert(req.RequestURI == want, "RequestURI not restored")
	b, _ := io.ReadAll(req.Body)
	verif.Assert(len(b) == 0, "a body appeared")
	verif.Assert(req.Header.Get(MethodOverrideHeader) == "", "override header still present")
	verif.Assert(req.Header.Get(ContentTypeHeader) == "", "form content type leaked to the de-tunnelled request")
	verif.Assert(req.Header.Get(MethodHeader) == "finder", "Rest.li method header changed")
	verif.Assert(req.Header.Get(ProtocolVersionHeader) == ProtocolVersion, "protocol header changed")
}

// Harness_C14_Multipart: body of blen symbolic bytes (>=1), query of qlen
// symbolic bytes (>=1).
func Harness_C14_Multipart(qlen, blen int) {
	verb := c14Verbs[verif.Choose(len(c14Verbs))]
	query := verif.String(qlen)
	body := verif.Bytes(blen)
	req := c14Request(verb, "/root", query, body)
	err := DecodeTunnelledQuery(req)
	verif.Assert(err == nil, "decoding a tunnelled request with a body failed")
	verif.Cover("decoded")
	verif.Assert(req.Method == verb, "verb not restored")
	verif.Assert(req.URL.RawQuery == query, "raw query not restored byte for byte")
	verif.Assert(req.RequestURI == "/root?"+query, "RequestURI not restored")
	b, _ := io.ReadAll(req.Body)
	verif.Assert(string(b) == string(body), "body bytes changed")
	verif.Assert(req.Header.Get(ContentTypeHeader) == ApplicationJsonContentType, "content type not restored")
	verif.Assert(req.Header.Get(MethodOverrideHeader) == "", "override header still present")
}

// Harness_C14_NotTunnelled: a request without the override header, or not a
// POST, is left untouched.
func Harness_C14_NotTunnelled(qlen int) {
	verb := c14Verbs[verif.Choose(len(c14Verbs))]
	withHeader := verif.Bool()
	query := verif.String(qlen)
	verif.Assume(!(verb == "POST" && withHeader))
	req := &http.Request{Method: verb, URL: &url.URL{Path: "/root", RawQuery: query}, Header: http.Header{}, Body: io.NopCloser(bytes.NewReader([]byte("{}")))}
	req.Header.Set(ContentTypeHeader, ApplicationJsonContentType)
	if withHeader {
		req.Header.Set(MethodOverrideHeader, "GET")
	}
	err := DecodeTunnelledQuery(req)
	verif.Assert(err == nil, "untunnelled request rejected")
	verif.Assert(req.Method == verb, "verb changed")
	verif.Assert(req.URL.RawQuery == query, "query changed")
	b, _ := io.ReadAll(req.Body)
	verif.Assert(string(b) == "{}", "body changed")
	verif.Assert(req.Header.Get(ContentTypeHeader) == ApplicationJsonContentType, "content type changed")
	verif.Cover("decoded")
}

// Harness_C14_Malformed: the malformed tunnelled requests named by the
// property are rejected.
func Harness_C14_Malformed() {
	kind := verif.Choose(4)
	var req *http.Request
	switch kind {
	case 0: // override header combined with a URL query
		req = c14Request("GET", "/root", "q=a", nil)
		req.URL.RawQuery = "x=1"
	case 1: // multipart without a query part
		req = c14Request("GET", "/root", "", []byte("{}"))
	case 2: // multipart with an unknown part type
		nb, h := EncodeTunnelledQuery("GET", "q=a", []byte("{}"))
		nb = bytes.Replace(nb, []byte(ApplicationJsonContentType), []byte("text/plain"), 1)
		req = &http.Request{Method: http.MethodPost, URL: &url.URL{Path: "/root"}, Header: http.Header{}, Body: io.NopCloser(bytes.NewReader(nb))}
		for k := range h {
			req.Header.Set(k, h.Get(k))
		}
	case 3: // multipart with a query part only
		nb, h := EncodeTunnelledQuery("GET", "q=a", []byte("{}"))
		idx := bytes.Index(nb, []byte("\r\n--"+"")) // first boundary line after the opening one
		_ = idx
		// drop the JSON part: keep everything up to the second boundary and close
		parts := bytes.SplitN(nb, []byte("\r\n--"), 3)
		bnd := bytes.SplitN(nb[2:], []byte("\r\n"), 2)[0]
		nb = append(append(append([]byte{}, parts[0]...), []byte("\r\n--")...), append(bnd, []byte("--\r\n")...)...)
		req = &http.Request{Method: http.MethodPost, URL: &url.URL{Path: "/root"}, Header: http.Header{}, Body: io.NopCloser(bytes.NewReader(nb))}
		for k := range h {
			req.Header.Set(k, h.Get(k))
		}
	}
	err := DecodeTunnelledQuery(req)
	verif.Assert(err != nil, "malformed tunnelled request accepted")
	verif.Cover("rejected")
}

func Harness_C14_Twin(qlen int) {
	query := verif.String(qlen)
	req := c14Request("GET", "/root", query, nil)
	_ = DecodeTunnelledQuery(req)
	verif.Assert(req.URL.RawQuery != "a", "twin: some query is 'a'")
}

// Harness_C14_Threshold: the client tunnels iff threshold > 0 and the encoded
// query is longer than the threshold; otherwise the request is untouched.
func Harness_C14_Threshold(qlen int) {
	q := "q=" + string(bytes.Repeat([]byte("a"), qlen))
	t := verif.Int()
	verif.Assume(t >= -1)
	verif.Assume(t <= qlen+4)
	c := &Client{HostnameResolver: &SimpleHostnameResolver{Hostname: &url.URL{Scheme: "http", Host: "h"}}, QueryTunnellingThreshold: t}
	req, err := newRequest(c, c14Ctx(), ResourcePathString("/root"), QueryParamsString(q), http.MethodGet, Method_finder, nil, nil)
	verif.Assert(err == nil, "newRequest failed")
	should := t > 0 && len(q) > t
	if should {
		verif.Cover("tunnelled")
		verif.Assert(req.Method == http.MethodPost, "tunnelled request is not a POST")
		verif.Assert(req.Header.Get(MethodOverrideHeader) == http.MethodGet, "override header missing")
		verif.Assert(req.URL.RawQuery == "", "query still in the URL of a tunnelled request")
		b, _ := io.ReadAll(req.Body)
		verif.Assert(string(b) == q, "tunnelled body is not the query")
		verif.Assert(req.Header.Get(ContentTypeHeader) == FormUrlEncodedContentType, "form content type missing")
	} else {
		verif.Cover("direct")
		verif.Assert(req.Method == http.MethodGet, "verb changed although the query does not exceed the threshold")
		verif.Assert(req.URL.RawQuery == q, "query changed although the query does not exceed the threshold")
		verif.Assert(req.Header.Get(MethodOverrideHeader) == "", "override header on an untunnelled request")
	}
	verif.Assert(req.Header.Get(MethodHeader) == "finder", "method header")
	verif.Assert(req.Header.Get(ProtocolVersionHeader) == ProtocolVersion, "protocol version header")
}

// c14Bodies: the shapes a body of an override request can take. Every one of
// them combined with a query in the URL must be rejected (the property names
// "override header combined with a URL query" without regard to the body).
func c14OverrideBody(kind int) (body []byte, contentType string) {
	switch kind {
	case 0: // well-formed form-encoded tunnel
		return []byte("q=a"), FormUrlEncodedContentType
	case 1: // well-formed multipart tunnel
		nb, h := EncodeTunnelledQuery("PUT", "q=a", []byte("{}"))
		return nb, h.Get(ContentTypeHeader)
	case 2: // multipart whose only part is the JSON body
		nb, h := EncodeTunnelledQuery("PUT", "q=a", []byte("{}"))
		ct := h.Get(ContentTypeHeader)
		parts := bytes.SplitN(nb, []byte("\r\n--"), 3)
		// parts[0] = opening boundary + query part; parts[1] = json part; parts[2] = closing
		bnd := bytes.SplitN(nb[2:], []byte("\r\n"), 2)[0]
		out := append([]byte("--"), bnd...)
		out = append(out, parts[1][len(bnd):]...)
		out = append(out, []byte("\r\n--")...)
		out = append(out, bnd...)
		out = append(out, []byte("--\r\n")...)
		return out, ct
	case 3: // a plain JSON body that is not a tunnel at all
		return []byte("{}"), ApplicationJsonContentType
	case 4: // no body, no content type
		return nil, ""
	}
	// empty form-encoded body
	return []byte{}, FormUrlEncodedContentType
}

// Harness_C14_OverrideWithUrlQuery: a POST carrying the method-override
// header and a non-empty URL query (qlen symbolic bytes) is rejected whatever
// its body looks like.
func Harness_C14_OverrideWithUrlQuery(qlen int) {
	q := verif.String(qlen)
	kind := verif.Choose(6)
	body, ct := c14OverrideBody(kind)
	req := &http.Request{Method: http.MethodPost, URL: &url.URL{Path: "/root", RawQuery: q}, Header: http.Header{}, Body: io.NopCloser(bytes.NewReader(body))}
	req.Header.Set(MethodOverrideHeader, "PUT")
	if ct != "" {
		req.Header.Set(ContentTypeHeader, ct)
	}
	var err error
	p, msg := verif.Try(func() { err = DecodeTunnelledQuery(req) })
	verif.Assert(!p, "DecodeTunnelledQuery panicked: "+msg)
	verif.Assert(err != nil, "override header combined with a URL query was accepted")
	verif.Cover("rejected")
}

// Harness_C14_JsonOnlyMultipart: sanity of the shape used above: without a URL
// query the JSON-only multipart body is rejected for its missing query part.
func Harness_C14_JsonOnlyMultipart() {
	body, ct := c14OverrideBody(2)
	req := &http.Request{Method: http.MethodPost, URL: &url.URL{Path: "/root"}, Header: http.Header{}, Body: io.NopCloser(bytes.NewReader(body))}
	req.Header.Set(MethodOverrideHeader, "PUT")
	req.Header.Set(ContentTypeHeader, ct)
	err := DecodeTunnelledQuery(req)
	verif.Assert(err != nil, "JSON-only multipart body not rejected (its query part is missing)")
	verif.Cover("rejected")
}
