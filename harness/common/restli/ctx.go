package restli

import "context"

func c14Ctx() context.Context { return context.Background() }
