package restlidata

import (
	"MODULE/restlicodec"
	verif "MODULE/zzverif"
)

// C04, raw records: no byte string decoded into a RawRecord, and no untyped
// value handed to RawRecord.UnmarshalTo, makes the decoder panic.

type c04Probe struct {
	s string
	n []int32
	m map[string]string
}

func (p *c04Probe) UnmarshalRestLi(r restlicodec.Reader) error {
	return r.ReadRecord(c04ProbeRequired, func(r restlicodec.Reader, field string) (err error) {
		switch field {
		case "s":
			p.s, err = r.ReadString()
		case "n":
			err = r.ReadArray(func(r restlicodec.Reader) error {
				v, err := r.ReadInt32()
				p.n = append(p.n, v)
				return err
			})
		case "m":
			p.m = map[string]string{}
			err = r.ReadMap(func(r restlicodec.Reader, k string) error {
				v, err := r.ReadString()
				p.m[k] = v
				return err
			})
		default:
			err = r.Skip()
		}
		return err
	})
}
func (p *c04Probe) NewInstance() *c04Probe { return new(c04Probe) }

// Harness_C04_RawRecord: format 0 JSON, 1 ROR2; n symbolic bytes.
func Harness_C04_RawRecord(format, n int) {
	data := verif.Bytes(n)
	var rd restlicodec.Reader
	var err error
	if format == 0 {
		rd, err = restlicodec.NewJsonReader(data)
	} else {
		rd, err = restlicodec.NewRor2Reader(string(data))
	}
	if err != nil {
		verif.Cover("reader-rejected")
		return
	}
	var r RawRecord
	p, msg := verif.Try(func() { err = r.UnmarshalRestLi(rd) })
	verif.Assert(!p, "RawRecord.UnmarshalRestLi panicked: "+msg)
	verif.Cover("returned")
}

// Harness_C04_RawRecordTo: a raw record whose fields hold solver-chosen
// values of the wrong (or right) kind is decoded into a typed object.
func Harness_C04_RawRecordTo() {
	leaf := func() interface{} {
		switch verif.Choose(8) {
		case 0:
			return nil
		case 1:
			return "str"
		case 2:
			return int64(3)
		case 3:
			return 2.5
		case 4:
			return []interface{}{int32(1), nil}
		case 5:
			return map[string]interface{}{"k": nil}
		case 6:
			return []interface{}{}
		}
		return map[string]interface{}{"k": "v"}
	}
	r := RawRecord{}
	if verif.Bool() {
		r["s"] = leaf()
	}
	if verif.Bool() {
		r["n"] = leaf()
	} else if verif.Bool() {
		r["m"] = leaf()
	}
	var err error
	p, msg := verif.Try(func() { err = r.UnmarshalTo(new(c04Probe)) })
	verif.Assert(!p, "RawRecord.UnmarshalTo panicked: "+msg)
	verif.ObserveBool("err", err != nil)
	verif.Cover("returned")
}

type c04NamedRaw map[string]interface{}

// Harness_C04_RawRecordAny: a raw record decoded through the untyped-value
// reader from a solver-chosen Go value - maps of every shape (the expected
// map[string]interface{}, a named map type, maps with other element or key
// types, nil maps, pointers to maps), another RawRecord, and non-maps: the
// call returns, it never panics, and a map[string]interface{} is accepted.
func Harness_C04_RawRecordAny() {
	var v interface{}
	k := verif.Choose(14)
	switch k {
	case 0:
		v = map[string]interface{}{"a": "b", "n": int32(1)}
	case 1:
		v = map[string]string{"a": "b"}
	case 2:
		v = map[string]int32{"a": 1}
	case 3:
		v = map[int]interface{}{1: "x"}
	case 4:
		m := map[string]string{"a": "b"}
		v = &m
	case 5:
		m := map[string]interface{}{"a": "b"}
		v = &m
	case 6:
		v = RawRecord{"a": "b"}
	case 7:
		v = &RawRecord{"a": "b"}
	case 8:
		v = c04NamedRaw{"a": "b"}
	case 9:
		v = (map[string]interface{})(nil)
	case 10:
		v = (map[string]string)(nil)
	case 11:
		v = nil
	case 12:
		v = "str"
	default:
		v = []interface{}{map[string]string{"a": "b"}}
	}
	if verif.Bool() {
		v = map[string]interface{}{"outer": v}
		k = 0
	}
	var r RawRecord
	var err error
	p, msg := verif.Try(func() { err = r.UnmarshalRestLi(restlicodec.NewInterfaceReader(v)) })
	verif.Assert(!p, "RawRecord.UnmarshalRestLi panicked on an untyped value: "+msg)
	if k == 0 {
		verif.Assert(err == nil, "a map[string]interface{} was not accepted as a raw record")
	}
	verif.ObserveBool("err", err != nil)
	verif.Cover("returned")
}
