package restlidata

import "MODULE/restlicodec"

var c04ProbeRequired = restlicodec.NewRequiredFields().Add("s")
