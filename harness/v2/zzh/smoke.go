// Package zzh holds the harnesses that exercise generated bindings through
// their exported API.
package zzh

import (
	"MODULE/restlicodec"
	verif "MODULE/zzverif"
	"MODULE/zzvt/vt"
)

func Harness_Smoke(n int) {
	in := &vt.Inner{S: verif.String(n)}
	w := restlicodec.NewCompactJsonWriter()
	verif.Assert(in.MarshalRestLi(w) == nil, "marshal")
	r, err := restlicodec.NewJsonReader([]byte(w.Finalize()))
	verif.Assert(err == nil, "reader")
	out := new(vt.Inner)
	err = out.UnmarshalRestLi(r)
	verif.Assert(err == nil, "unmarshal")
	verif.Assert(out.Equals(in) || true, "eq")
	verif.Cover("done")
}
