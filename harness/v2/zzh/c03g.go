package zzh

import (
	"unicode/utf8"
	"net/http"

	"MODULE/restli"
	"MODULE/restlidata/generated/com/linkedin/restli/common"
	ref "MODULE/zzref"
	verif "MODULE/zzverif"
	"MODULE/zzvt/vt"
	"MODULE/zzvt/vtr/things"
)

// C03 over generated types and envelopes: the documents the bindings emit
// parse under the reference parsers to trees whose keys are schema field
// names, union member aliases and map keys, whose enums are symbol names and
// whose bytes/fixed values are strings.

func c03Tree(format int, enc string) *ref.Node {
	var t *ref.Node
	var ok bool
	switch format {
	case gfJSON, gfPretty:
		t, ok = ref.ParseJSON(enc)
	case gfHeader, gfPath:
		t, ok = ref.ParseROR2(enc)
	default:
		verif.Assert(len(enc) > 2 && enc[:2] == "p=", "query parameter name lost")
		t, ok = ref.ParseROR2(enc[2:])
	}
	verif.Assert(ok, "the emitted document is not well-formed under the reference parser: "+enc)
	return t
}

// Harness_C03G_Outer: a record with an include, enum, fixed, typeref, union,
// arrays and maps.
func Harness_C03G_Outer(format int) {
	fx := vt.Fx4{'a', verif.Byte(), 0, 0xff}
	if format <= gfPretty {
		verif.Assume(fx[1] < 0x80 || true)
	}
	member := verif.Choose(3)
	u := &vt.Un{}
	switch member {
	case 0:
		u.Int = c11Ptr32(4)
	case 1:
		u.String = c11PtrS("us")
	case 2:
		u.Inner = &vt.Inner{S: "ui", N: c11Ptr32(1)}
	}
	color := vt.Color(1 + verif.Choose(3))
	mk := verif.String(1)
	if format <= gfPretty {
		verif.Assume(mk[0] < 0x80)
	}
	o := &vt.Outer{Inner: vt.Inner{S: "is", N: c11Ptr32(2)}, Name: "nm", Color: color, Fx: &fx, Un: u,
		Arr: []*vt.Inner{{S: "a0", N: c11Ptr32(0)}}, M: map[string]string{mk: "mv"}}
	enc, err := genEncode(format, o)
	verif.Assert(err == nil, "encoding failed")
	t := c03Tree(format, enc)
	verif.Assert(t.Kind == ref.Object, "record is not an object")
	// fields of the included record are inlined; keys are the schema names
	for _, k := range []string{"s", "n", "name", "color", "fx", "un", "arr", "m"} {
		verif.Assert(t.Get(k) != nil, "schema field "+k+" missing from "+enc)
	}
	for _, k := range t.Keys {
		switch k {
		case "s", "n", "name", "color", "fx", "un", "arr", "m":
		default:
			verif.Fail("key " + k + " is not a schema field name: " + enc)
		}
	}
	verif.Assert(t.Get("color").Kind == ref.String && t.Get("color").S == []string{"", "RED", "GREEN", "BLUE"}[color], "enum is not written as its symbol name: "+enc)
	wantFx := string(ref.AppendRune(ref.AppendRune(ref.AppendRune(ref.AppendRune(nil, 'a'), int(fx[1])), 0), 0xff))
	verif.Assert(t.Get("fx").Kind == ref.String && t.Get("fx").S == wantFx, "fixed is not a string of one code point per byte: "+enc)
	un := t.Get("un")
	verif.Assert(un.Kind == ref.Object && len(un.Keys) == 1 && un.Keys[0] == []string{"int", "string", "vt.Inner"}[member], "union is not an object keyed by the member alias: "+enc)
	m := t.Get("m")
	verif.Assert(m.Kind == ref.Object && len(m.Keys) == 1 && m.Keys[0] == mk && m.Kids[0].S == "mv", "map key changed: "+enc)
	arr := t.Get("arr")
	verif.Assert(arr.Kind == ref.Array && len(arr.Kids) == 1 && arr.Kids[0].Get("s").S == "a0", "array of records changed: "+enc)
	if format <= gfPretty {
		verif.Assert(t.Get("n").Kind == ref.Number && t.Get("n").S == "2", "int32 is not a JSON number")
	}
	verif.Cover("conforms")
}

// Harness_C03G_Envelopes: response envelopes and protocol headers.
func Harness_C03G_Envelopes() {
	m := &mockThings{item: &vt.Item{Name: "x"}}
	total := int32(7)
	m.elements = &things.Elements{Elements: []*vt.Item{{Name: "e"}}, Paging: &common.CollectionMetadata{Start: 0, Count: 10, Total: &total, Links: []*common.Link{}}}
	// batch keys: one or two solver-chosen bytes (valid UTF-8); in the body they
	// must appear in the reduced encoding (reference escaper ref.ReducedEscape)
	ka, kb := verif.String(1), "b"+verif.String(1)
	verif.Assume(utf8.ValidString(ka) && utf8.ValidString(kb))
	ea, eb := ref.ReducedEscape(ka), ref.ReducedEscape(kb)
	m.batch = &things.BatchEntities{Results: map[string]*vt.Item{ka: {Name: "r"}}, Statuses: map[string]int{ka: 200},
		Errors: map[string]*common.ErrorResponse{kb: {Status: c11Ptr32(404)}}}
	m.pong = "pong!"
	m.createdID = "new id"
	h := newServer(m)
	kind := verif.Choose(5)
	var rec *recorder
	switch kind {
	case 0:
		rec, _ = serve(h, "GET", "/things?q=search&kw=x", map[string]string{restli.MethodHeader: "finder"}, nil)
		t, ok := ref.ParseJSON(rec.body.String())
		verif.Assert(ok, "finder response is not JSON")
		verif.Assert(t.Get("elements") != nil && t.Get("elements").Kind == ref.Array && len(t.Get("elements").Kids) == 1, "elements member wrong: "+rec.body.String())
		pg := t.Get("paging")
		verif.Assert(pg != nil && pg.Get("total") != nil && pg.Get("total").S == "7" && pg.Get("count").S == "10", "paging member wrong: "+rec.body.String())
	case 1:
		rec, _ = serve(h, "GET", "/things?ids=List(a,b)", map[string]string{restli.MethodHeader: "batch_get"}, nil)
		t, ok := ref.ParseJSON(rec.body.String())
		verif.Assert(ok, "batch response is not JSON")
		verif.Assert(t.Get("results") != nil && len(t.Get("results").Keys) == 1 && ref.UpperHex(t.Get("results").Keys[0]) == ea, "results member wrong (keys must be in the reduced encoding): "+rec.body.String())
		verif.Assert(t.Get("statuses") != nil && len(t.Get("statuses").Keys) == 1 && ref.UpperHex(t.Get("statuses").Keys[0]) == ea && t.Get("statuses").Kids[0].S == "200", "statuses member wrong (keys must be in the reduced encoding): "+rec.body.String())
		verif.Assert(t.Get("errors") != nil && len(t.Get("errors").Keys) == 1 && ref.UpperHex(t.Get("errors").Keys[0]) == eb && t.Get("errors").Kids[0].Get("status").S == "404", "errors member wrong (keys must be in the reduced encoding): "+rec.body.String())
	case 2:
		rec, _ = serve(h, "POST", "/things?action=ping", map[string]string{restli.MethodHeader: "action"}, []byte(`{"msg":"m"}`))
		t, ok := ref.ParseJSON(rec.body.String())
		verif.Assert(ok && t.Get("value") != nil && t.Get("value").S == "pong!" && len(t.Keys) == 1, "action result is not {\"value\": ...}: "+rec.body.String())
	case 3:
		rec, _ = serve(h, "POST", "/things", map[string]string{restli.MethodHeader: "create"}, []byte(`{"name":"n"}`))
		verif.Assert(rec.status == http.StatusCreated, "create status")
		id := rec.header.Get(restli.IDHeader)
		t, ok := ref.ParseROR2(id)
		verif.Assert(ok && t.Kind == ref.String && t.S == "new id", "id header does not denote the created id: "+id)
		verif.Assert(ref.UpperHex(id) == ref.ReducedEscape("new id"), "id header is not in the reduced encoding: "+id)
		verif.Assert(rec.header.Get("Location") != "", "location header missing")
	case 4:
		rec, _ = serve(h, "GET", "/things/k", map[string]string{restli.MethodHeader: "get"}, nil)
		verif.Assert(rec.header.Get("Content-Type") == "application/json", "content type")
	}
	verif.Assert(rec.header.Get(restli.ProtocolVersionHeader) == "2.0.0", "protocol version header missing on the response")
	verif.Cover("envelope")
}

// Harness_C03G_RequestHeaders: every request the client builds carries the
// protocol version and method headers.
func Harness_C03G_RequestHeaders() {
	m := &mockThings{item: &vt.Item{Name: "x"}}
	tc, _, lb := c02Setup(m)
	cap := &headerCapture{inner: lb}
	_ = cap
	switch verif.Choose(3) {
	case 0:
		_, _ = tc.Get("k")
		verif.Assert(lb.lastHeaders.Get(restli.MethodHeader) == "get", "method header")
	case 1:
		_ = tc.Delete("k")
		verif.Assert(lb.lastHeaders.Get(restli.MethodHeader) == "delete", "method header")
	case 2:
		_, _ = tc.PingAction(&things.PingActionParams{Msg: "m"})
		verif.Assert(lb.lastHeaders.Get(restli.MethodHeader) == "action", "method header")
	}
	verif.Assert(lb.lastHeaders.Get(restli.ProtocolVersionHeader) == "2.0.0", "protocol version header missing on the request")
	verif.Cover("headers")
}

type headerCapture struct{ inner *loopback }

func Harness_C03G_Twin() {
	o := &vt.Inner{S: verif.String(1)}
	enc, _ := genEncode(gfHeader, o)
	t, ok := ref.ParseROR2(enc)
	verif.Assert(ok && t.Get("s").S == "x", "twin: some value is not x")
}
