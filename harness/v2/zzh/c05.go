package zzh

import (
	"context"
	"errors"
	"net/http"
	"strings"

	"MODULE/restli"
	verif "MODULE/zzverif"
	"MODULE/zzvt/vt"
)

// C05: routing and method inference against a reference decision table.

var c05Verbs = []string{"GET", "POST", "PUT", "DELETE", "PATCH"}

var c05Methods = []string{"get", "create", "delete", "update", "partial_update", "batch_get", "batch_create", "batch_delete",
	"batch_update", "batch_partial_update", "get_all", "action", "finder"}

// verb each method travels on
var c05MethodVerb = map[string]string{"get": "GET", "create": "POST", "delete": "DELETE", "update": "PUT", "partial_update": "POST",
	"batch_get": "GET", "batch_create": "POST", "batch_delete": "DELETE", "batch_update": "PUT", "batch_partial_update": "POST",
	"get_all": "GET", "action": "POST", "finder": "GET"}

type c05Filter struct {
	id   int
	mode int // 0 pass, 1 add context, 2 fail
	log  *[]string
}

type c05Key struct{}

func (f *c05Filter) PreRequest(req *http.Request) (context.Context, error) {
	ctx := req.Context()
	m := restli.GetMethodFromContext(ctx)
	segs := restli.GetResourcePathSegmentsFromContext(ctx)
	ents := restli.GetEntitySegmentsFromContext(ctx)
	entry := "pre" + string(rune('0'+f.id)) + ":" + m.String() + ":" + string(rune('0'+len(segs))) + ":" + string(rune('0'+len(ents)))
	switch m {
	case restli.Method_finder:
		entry += ":" + restli.GetFinderNameFromContext(ctx)
	case restli.Method_action:
		entry += ":" + restli.GetActionNameFromContext(ctx)
	}
	*f.log = append(*f.log, entry)
	switch f.mode {
	case 1:
		return context.WithValue(ctx, c05Key{}, f.id), nil
	case 2:
		return nil, errors.New("filter says no")
	}
	return nil, nil
}

func (f *c05Filter) PostRequest(ctx context.Context, h http.Header) error {
	*f.log = append(*f.log, "post"+string(rune('0'+f.id)))
	return nil
}

// expectation computed independently of the router
type c05Expect struct {
	status   int    // 404 / 400, or 0 when a method is expected to run
	resource string // things / parts / info
	method   string // get ... / finder:search / action:ping
	ents     int
	segs     int
	loose    bool // combination left open by the property: only "at most one method, consistent status" is asserted
}

var c05Registered = map[string]map[string]bool{
	"things": {"get": true, "create": true, "update": true, "partial_update": true, "delete": true, "get_all": true, "batch_get": true,
		"batch_create": true, "batch_update": true, "batch_partial_update": true, "batch_delete": true,
		"finder:search": true, "finder:withMeta": true, "action:ping": true, "action:touch": true},
	"parts": {"get": true, "create": true},
	"info":  {"get": true, "update": true, "delete": true, "action:reset": true},
}

func c05Bodies(resource, method string) string {
	switch resource + "." + method {
	case "info.update":
		return `{"s":"x"}`
	case "parts.create":
		return `{"v":"x"}`
	}
	switch method {
	case "create", "update":
		return `{"name":"n"}`
	case "partial_update":
		return `{"patch":{"$set":{"name":"n"}}}`
	case "batch_create":
		return `{"elements":[{"name":"n"}]}`
	case "batch_update":
		return `{"entities":{"a":{"name":"n"}}}`
	case "batch_partial_update":
		return `{"entities":{"a":{"patch":{"$set":{"name":"n"}}}}}`
	case "action:ping":
		return `{"msg":"m"}`
	case "action:touch", "action:reset":
		return `{}`
	}
	return ""
}

// Harness_C05_Route: nf filters (0..2).
func Harness_C05_Route(nf int) {
	verb := c05Verbs[verif.Choose(len(c05Verbs))]
	hdrIdx := verif.Choose(len(c05Methods) + 2) // 0 absent, 1..13 names, 14 unknown
	header := ""
	switch {
	case hdrIdx >= 1 && hdrIdx <= len(c05Methods):
		header = c05Methods[hdrIdx-1]
	case hdrIdx == len(c05Methods)+1:
		header = "bogus"
	}
	shape := verif.Choose(10)
	paths := []string{"/things", "/things/k", "/things/k/parts", "/things/k/parts/7", "/things/k/info", "/things/",
		"/nope", "/things/k/nope", "/things/k/info/x", "/things/k/parts/7/more"}
	path := paths[shape]
	qSel := verif.Choose(3)   // none, q=search, q=nosuch
	ids := verif.Bool()       // ids=List(a)
	aSel := verif.Choose(4)   // none, action=ping, action=touch/reset, action=nosuch
	var qs []string
	finder, action := "", ""
	switch qSel {
	case 1:
		finder = "search"
		qs = append(qs, "q=search", "kw=x")
	case 2:
		finder = "nosuch"
		qs = append(qs, "q=nosuch")
	}
	if ids {
		qs = append(qs, "ids=List(a)")
	}

	// ---- reference decision
	exp := c05Expect{}
	resource, isCollection, hasEntity := "", false, false
	switch shape {
	case 0:
		resource, isCollection, exp.segs = "things", true, 1
	case 1:
		resource, isCollection, hasEntity, exp.segs, exp.ents = "things", true, true, 1, 1
	case 2:
		resource, isCollection, exp.segs, exp.ents = "parts", true, 2, 1
	case 3:
		resource, isCollection, hasEntity, exp.segs, exp.ents = "parts", true, true, 2, 2
	case 4:
		resource, exp.segs, exp.ents = "info", 2, 1
	case 5:
		// trailing slash after a collection name: "no entity", 400 or 404 are all accepted
		resource, isCollection, exp.segs, exp.loose = "things", true, 1, true
	case 6, 7, 8, 9:
		// unknown root, unknown sub-resource; a segment after a simple resource
		// names a sub-resource, and info has none
		exp.status = 404
	}
	switch aSel {
	case 1:
		action = "ping"
	case 2:
		action = "touch"
		if resource == "info" {
			action = "reset"
		}
	case 3:
		action = "nosuch"
	}
	if action != "" {
		qs = append(qs, "action="+action)
	}
	query := strings.Join(qs, "&")

	if exp.status == 0 {
		method := ""
		if isCollection {
			known := header != "" && header != "bogus"
			switch {
			case known:
				method = header
				if c05MethodVerb[header] != verb {
					exp.loose = true // header contradicts the verb: left unspecified
				}
			case header == "bogus":
				exp.loose = true // 400, or treated as absent
			}
			if !known {
				switch verb {
				case "GET":
					switch {
					case hasEntity:
						method = "get"
					case finder != "":
						method = "finder"
					case ids:
						method = "batch_get"
					default:
						method = "get_all"
					}
				case "POST":
					exp.status = 400
				case "DELETE":
					if ids {
						method = "batch_delete"
					} else {
						method = "delete"
					}
				case "PUT":
					if ids {
						method = "batch_update"
					} else {
						method = "update"
					}
				default:
					exp.status = 400
				}
			}
			if exp.status == 0 {
				switch method {
				case "get", "delete", "update", "partial_update":
					if !hasEntity {
						exp.status = 400
					}
				case "finder", "create", "batch_get", "batch_create", "batch_delete", "batch_update", "batch_partial_update", "get_all":
					if hasEntity {
						exp.status = 400
					}
				}
			}
		} else {
			switch verb {
			case "GET":
				method = "get"
			case "PUT":
				method = "update"
			case "DELETE":
				method = "delete"
			case "POST":
				if action != "" {
					method = "action"
				} else {
					method = "partial_update"
				}
			default:
				if header != "" {
					exp.loose = true // other verb with a header on a simple resource: unspecified
				}
				exp.status = 400
			}
		}
		if exp.status == 0 {
			switch method {
			case "finder":
				method = "finder:" + finder
			case "action":
				method = "action:" + action
			}
			exp.resource, exp.method = resource, method
			if !c05Registered[resource][method] {
				exp.status = 400
			}
			// entity-level vs collection-level actions: an action declared on the
			// entity needs a key and vice versa; the property does not spell out the
			// status for that mismatch beyond "400 otherwise"
			if method == "action:touch" && !hasEntity || method == "action:ping" && hasEntity {
				exp.loose = true
			}
		}
	}

	// ---- the server
	var log []string
	var filters []restli.Filter
	failing := -1
	for i := 0; i < nf; i++ {
		mode := verif.Choose(3)
		if mode == 2 && failing < 0 {
			failing = i
		}
		filters = append(filters, &c05Filter{id: i, mode: mode, log: &log})
	}
	m := &mockThings{item: &vt.Item{Name: "x"}}
	h := newServer(m, filters...)
	headers := map[string]string{}
	if header != "" {
		headers[restli.MethodHeader] = header
	}
	body := ""
	if exp.status == 0 {
		body = c05Bodies(exp.resource, exp.method)
	}
	target := path
	if query != "" {
		target += "?" + query
	}
	rec, ok := serve(h, verb, target, headers, []byte(body))
	verif.Assert(ok, "request line does not parse")
	verif.Cover("served")

	verif.Assert(len(m.calls) <= 1, "more than one resource method was invoked")
	if exp.loose {
		verif.Cover("unspecified-combination")
		if len(m.calls) == 0 {
			verif.Assert(rec.status >= 400, "no method ran yet the status is a success")
		}
		return
	}
	if exp.status != 0 {
		verif.Cover("unrouted")
		verif.Assert(len(m.calls) == 0, "resource code ran for a request that must not be routed")
		verif.Assert(len(log) == 0, "filters ran for a request that must not be routed")
		verif.Assert(rec.status == exp.status, "wrong status for an unrouted request: got "+http.StatusText(rec.status)+" want "+http.StatusText(exp.status)+" for "+verb+" "+target+" ["+header+"]")
		return
	}
	verif.Cover("routed")
	// filters: all PreRequest in order up to the first failing one
	wantPre := nf
	if failing >= 0 {
		wantPre = failing + 1
	}
	npre := 0
	for i, e := range log {
		if strings.HasPrefix(e, "pre") {
			verif.Assert(i == npre, "a PostRequest ran before all PreRequests")
			verif.Assert(e[3] == byte('0'+npre), "PreRequest filters ran out of order")
			want := "pre" + string(rune('0'+npre)) + ":" + strings.SplitN(exp.method, ":", 2)[0] + ":" + string(rune('0'+exp.segs)) + ":" + string(rune('0'+exp.ents))
			if i := strings.Index(exp.method, ":"); i >= 0 {
				want += exp.method[i:]
			}
			verif.Assert(e == want, "filter saw wrong routing facts: "+e+" want "+want)
			npre++
		}
	}
	verif.Assert(npre == wantPre, "wrong number of PreRequest calls")
	if failing >= 0 {
		verif.Assert(len(m.calls) == 0, "resource code ran although a filter failed")
		verif.Assert(len(log) == npre, "PostRequest ran although a filter failed")
		verif.Cover("filter-failed")
		return
	}
	if len(m.calls) == 0 {
		// decoding of key, parameters or body failed: must be a 400
		verif.Assert(rec.status == 400, "method not invoked but status is not 400: "+http.StatusText(rec.status)+" "+rec.body.String()+" for "+verb+" "+target+" ["+header+"] want "+exp.resource+"."+exp.method)
		verif.Cover("decode-400")
		return
	}
	c := m.calls[0]
	verif.Assert(c.resource == exp.resource && c.method == exp.method, "routed to "+c.resource+"."+c.method+" instead of "+exp.resource+"."+exp.method+" for "+verb+" "+target+" ["+header+"]")
	verif.Assert(rec.status < 400, "method ran but the status is a failure")
	// PostRequest in reverse order
	for i := 0; i < nf; i++ {
		verif.Assert(log[npre+i] == "post"+string(rune('0'+nf-1-i)), "PostRequest filters not in reverse order")
	}
	verif.Assert(len(log) == 2*nf, "wrong number of filter calls")
	verif.Assert(rec.header.Get(restli.ProtocolVersionHeader) == restli.ProtocolVersion, "protocol version header missing on the response")
	verif.Cover("method-invoked")
}

// Harness_C05_Snapshot: resources registered after Handler() do not affect it.
func Harness_C05_Snapshot() {
	m := &mockThings{item: &vt.Item{Name: "x"}}
	s := restli.NewServer()
	h0 := s.Handler()
	c05register(s, m)
	h1 := s.Handler()
	r0, _ := serve(h0, "GET", "/things/k", nil, nil)
	verif.Assert(r0.status == 404 && len(m.calls) == 0, "a handler obtained earlier sees a resource registered later")
	r1, _ := serve(h1, "GET", "/things/k", nil, nil)
	verif.Assert(r1.status == 200 && len(m.calls) == 1, "a handler obtained after registration does not route")
	verif.Cover("snapshot")
}

func Harness_C05_Twin() {
	m := &mockThings{item: &vt.Item{Name: "x"}}
	h := newServer(m)
	verb := c05Verbs[verif.Choose(len(c05Verbs))]
	rec, _ := serve(h, verb, "/things/k", nil, nil)
	verif.Assert(rec.status != 200, "twin: some verb routes")
}

// Harness_C05_Filters: filter ordering on three representative requests with
// every combination of filter behaviours (nf <= 3).
func Harness_C05_Filters(nf int) {
	var log []string
	var filters []restli.Filter
	failing := -1
	for i := 0; i < nf; i++ {
		mode := verif.Choose(3)
		if mode == 2 && failing < 0 {
			failing = i
		}
		filters = append(filters, &c05Filter{id: i, mode: mode, log: &log})
	}
	m := &mockThings{item: &vt.Item{Name: "x"}}
	h := newServer(m, filters...)
	var rec *recorder
	routed := true
	switch verif.Choose(3) {
	case 0:
		rec, _ = serve(h, "GET", "/things/k", nil, nil)
	case 1:
		rec, _ = serve(h, "GET", "/things?q=search&kw=x", nil, nil)
	case 2:
		rec, _ = serve(h, "GET", "/things/k/nope", nil, nil)
		routed = false
	}
	if !routed {
		verif.Assert(len(log) == 0 && len(m.calls) == 0 && rec.status == 404, "unrouted request touched filters or resource code")
		return
	}
	wantPre := nf
	if failing >= 0 {
		wantPre = failing + 1
	}
	for i := 0; i < wantPre; i++ {
		verif.Assert(i < len(log) && strings.HasPrefix(log[i], "pre"+string(rune('0'+i))), "PreRequest filters not in registration order")
	}
	if failing >= 0 {
		verif.Assert(len(log) == wantPre && len(m.calls) == 0, "after a failing filter nothing else may run")
		verif.Cover("filter-failed")
		return
	}
	verif.Assert(len(m.calls) == 1, "method not invoked exactly once")
	verif.Assert(len(log) == 2*nf, "wrong number of filter calls")
	for i := 0; i < nf; i++ {
		verif.Assert(log[nf+i] == "post"+string(rune('0'+nf-1-i)), "PostRequest filters not in reverse order")
	}
	verif.Cover("filters-ordered")
}

// Harness_C05_Mount: the same requests through a bare handler, a path prefix
// and a ServeMux reach the same method.
func Harness_C05_Mount() {
	mount := verif.Choose(3)
	reqSel := verif.Choose(6)
	targets := []string{"/things", "/things/k", "/things/k/info", "/nope", "/hings", "/ings/k"}
	wantMethod := []string{"get_all", "get", "get", "", "", ""}
	wantRes := []string{"things", "things", "info", "", "", ""}
	m := &mockThings{item: &vt.Item{Name: "x"}}
	var h http.Handler
	prefix := ""
	switch mount {
	case 0:
		s := restli.NewServer()
		registerAll(s, m)
		h = s.Handler()
	case 1:
		// prefixes that share letters (or a whole segment) with the resource names
		prefix = []string{"/api", "/t", "/things", "/sgniht", "/a/things"}[verif.Choose(5)]
		s := restli.NewPrefixedServer(prefix)
		registerAll(s, m)
		h = s.Handler()
	case 2:
		s := restli.NewServer()
		registerAll(s, m)
		mux := http.NewServeMux()
		s.AddToMux(mux)
		h = mux
	}
	rec, _ := serve(h, "GET", prefix+targets[reqSel], nil, nil)
	if wantMethod[reqSel] == "" {
		verif.Assert(len(m.calls) == 0 && rec.status == 404, "unknown resource not answered with 404")
		verif.Cover("mount-404")
		return
	}
	verif.Assert(len(m.calls) == 1, "request not routed under this mounting: "+targets[reqSel]+" status "+http.StatusText(rec.status))
	verif.Assert(m.calls[0].resource == wantRes[reqSel] && m.calls[0].method == wantMethod[reqSel], "routed to the wrong method under this mounting")
	verif.Cover("mount-routed")
}
