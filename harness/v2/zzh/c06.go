package zzh

import (
	"sort"
	"strings"

	"MODULE/restlicodec"
	verif "MODULE/zzverif"
	"MODULE/zzvt/vt"
)

// C06: required-field accounting. Documents for Deep{am: array of Mid{ml: map
// of Leaf{v, w?}, t}, top, ol?: Leaf} are assembled in the harness with a
// presence bit per field; the expected missing set is computed from the bits.

type c06Doc struct {
	json  bool // document text is JSON (formats 0 and 2) or ROR2 (format 1)
	untyp bool // format 2: the JSON text is first decoded into an untyped Go value, which is then read through the interface reader
}

func c06DocFor(format int) c06Doc { return c06Doc{json: format != 1, untyp: format == 2} }

func (d c06Doc) obj(fields []string) string {
	if d.json {
		return "{" + strings.Join(fields, ",") + "}"
	}
	return "(" + strings.Join(fields, ",") + ")"
}

func (d c06Doc) arr(items []string) string {
	if d.json {
		return "[" + strings.Join(items, ",") + "]"
	}
	return "List(" + strings.Join(items, ",") + ")"
}

func (d c06Doc) kv(k, v string) string {
	if d.json {
		return `"` + k + `":` + v
	}
	return k + ":" + v
}

func (d c06Doc) str(s string) string {
	if d.json {
		return `"` + s + `"`
	}
	return s
}

var c06Unknown = [][2]string{
	{`1`, `1`},
	{`"s"`, `s`},
	{`{"a":[1,{"b":null}]}`, `(a:List(1,(b:c)))`},
	{`[[],{}]`, `List(List(),())`},
}

func c06Reader(d c06Doc, doc string) restlicodec.Reader {
	if d.untyp {
		v, err := c13Reader(0, doc).ReadInterface()
		verif.Assert(err == nil, "harness: JSON text does not decode into an untyped value")
		return restlicodec.NewInterfaceReader(v)
	}
	f := 1
	if d.json {
		f = 0
	}
	return c13Reader(f, doc)
}

// Harness_C06_Missing: format 0 JSON / 1 ROR2 / 2 untyped value; nElem array elements (1..2);
// every required or optional field has a presence bit.
func Harness_C06_Missing(format, nElem int) {
	d := c06DocFor(format)
	var want []string
	var top []string
	hasTop := verif.Bool()
	if hasTop {
		top = append(top, d.kv("top", d.str("z")))
	} else {
		want = append(want, "top")
	}
	hasAm := verif.Bool()
	type elem struct{ ml, v, w, t bool }
	elems := make([]elem, nElem)
	if hasAm {
		var items []string
		for i := range elems {
			e := &elems[i]
			e.ml, e.t = verif.Bool(), verif.Bool()
			idx := "am[" + string(rune('0'+i)) + "]"
			var fields []string
			if e.ml {
				e.v = verif.Bool()
				e.w = i == 0 && verif.Bool()
				var leaf []string
				if e.v {
					leaf = append(leaf, d.kv("v", d.str("x")))
				} else {
					want = append(want, idx+".ml.k.v")
				}
				if e.w {
					leaf = append(leaf, d.kv("w", "1"))
				}
				fields = append(fields, d.kv("ml", d.obj([]string{d.kv("k", d.obj(leaf))})))
			} else {
				want = append(want, idx+".ml")
			}
			if e.t {
				fields = append(fields, d.kv("t", d.str("y")))
			} else {
				want = append(want, idx+".t")
			}
			items = append(items, d.obj(fields))
		}
		top = append(top, d.kv("am", d.arr(items)))
	} else {
		want = append(want, "am")
	}
	hasOl := verif.Bool()
	olV := false
	if hasOl {
		olV = verif.Bool()
		var leaf []string
		if olV {
			leaf = append(leaf, d.kv("v", d.str("q")))
		} else {
			want = append(want, "ol.v")
		}
		top = append(top, d.kv("ol", d.obj(leaf)))
	}
	doc := d.obj(top)
	sort.Strings(want)

	v := new(vt.Deep)
	err := v.UnmarshalRestLi(c06Reader(d, doc))
	verif.Cover("decoded")
	if len(want) == 0 {
		verif.Assert(err == nil, "a complete document was rejected: "+doc)
		verif.Cover("complete")
	} else {
		mf, ok := err.(*restlicodec.MissingRequiredFieldsError)
		verif.Assert(ok, "missing required fields not reported as a MissingRequiredFieldsError for "+doc)
		got := append([]string(nil), mf.Fields...)
		sort.Strings(got)
		verif.Assert(strings.Join(got, " ") == strings.Join(want, " "), "missing set is ["+strings.Join(got, " ")+"] want ["+strings.Join(want, " ")+"] for "+doc)
		verif.Cover("missing-reported")
	}
	// every field that was present is populated
	if hasTop {
		verif.Assert(v.Top == "z", "present field top not populated")
	}
	if hasAm {
		verif.Assert(len(v.Am) == nElem, "array elements lost")
		for i, e := range elems {
			if e.t {
				verif.Assert(v.Am[i].T == "y", "present field t not populated")
			}
			if e.ml {
				leaf := v.Am[i].Ml["k"]
				verif.Assert(leaf != nil, "map entry lost")
				if e.v {
					verif.Assert(leaf.V == "x", "present field v not populated")
				}
				verif.Assert((leaf.W != nil) == e.w, "optional field w presence changed")
			}
		}
	}
	verif.Assert((v.Ol != nil) == hasOl, "optional record presence changed")
	if hasOl && olV {
		verif.Assert(v.Ol.V == "q", "present field ol.v not populated")
	}
}

// Harness_C06_OrderUnknown: key order permuted, one unknown field of a
// solver-chosen shape injected at a solver-chosen position; one required leaf
// may be missing. The outcome must not depend on order or on the unknown field.
func Harness_C06_OrderUnknown(format int) {
	d := c06DocFor(format)
	missV := verif.Bool()
	var leaf []string
	if !missV {
		leaf = append(leaf, d.kv("v", d.str("x")))
	}
	mid := []string{d.kv("ml", d.obj([]string{d.kv("k", d.obj(leaf))})), d.kv("t", d.str("y"))}
	if verif.Bool() {
		mid[0], mid[1] = mid[1], mid[0]
	}
	fields := []string{d.kv("top", d.str("z")), d.kv("am", d.arr([]string{d.obj(mid)})), d.kv("ol", d.obj([]string{d.kv("v", d.str("q"))}))}
	// permutation
	i := verif.Choose(3)
	fields[0], fields[i] = fields[i], fields[0]
	if verif.Bool() {
		fields[1], fields[2] = fields[2], fields[1]
	}
	// unknown field
	pos := verif.Choose(5) // 4 = none
	if pos < 4 {
		u := c06Unknown[verif.Choose(len(c06Unknown))]
		uv := u[1]
		if d.json {
			uv = u[0]
		}
		unk := d.kv("zz", uv)
		fields = append(fields[:pos:pos], append([]string{unk}, fields[pos:]...)...)
	}
	doc := d.obj(fields)
	v := new(vt.Deep)
	err := v.UnmarshalRestLi(c06Reader(d, doc))
	if missV {
		mf, ok := err.(*restlicodec.MissingRequiredFieldsError)
		verif.Assert(ok && len(mf.Fields) == 1 && mf.Fields[0] == "am[0].ml.k.v", "wrong missing set for "+doc)
	} else {
		verif.Assert(err == nil, "complete document rejected: "+doc)
	}
	verif.Assert(v.Top == "z" && len(v.Am) == 1 && v.Am[0].T == "y" && v.Ol != nil && v.Ol.V == "q", "a neighbour of the unknown field was disturbed: "+doc)
	verif.Cover("decoded")
}

// Harness_C06_Includes: two records that include the same record (which
// itself includes another): each reports exactly its own and its inherited
// missing fields.
func Harness_C06_Includes(format int) {
	d := c06DocFor(format)
	which := verif.Choose(2) // 0 Alpha, 1 Beta
	own := "a1"
	if which == 1 {
		own = "p1"
	}
	names := []string{"b1", "b2", "m1", own}
	var fields, want []string
	for _, n := range names {
		if verif.Bool() {
			fields = append(fields, d.kv(n, d.str("v")))
		} else {
			want = append(want, n)
		}
	}
	doc := d.obj(fields)
	var err error
	if which == 0 {
		err = new(vt.Alpha).UnmarshalRestLi(c06Reader(d, doc))
	} else {
		err = new(vt.Beta).UnmarshalRestLi(c06Reader(d, doc))
	}
	sort.Strings(want)
	if len(want) == 0 {
		verif.Assert(err == nil, "a complete document was rejected: "+doc)
		verif.Cover("complete")
		return
	}
	mf, ok := err.(*restlicodec.MissingRequiredFieldsError)
	verif.Assert(ok, "missing fields not reported for "+doc)
	got := append([]string(nil), mf.Fields...)
	sort.Strings(got)
	verif.Assert(strings.Join(got, " ") == strings.Join(want, " "), "missing set is ["+strings.Join(got, " ")+"] want ["+strings.Join(want, " ")+"] for "+doc)
	verif.Cover("missing-reported")
}

// Harness_C06_Null: a JSON null member counts as absent.
func Harness_C06_Null() {
	nullTop, nullW := verif.Bool(), verif.Bool()
	top, w := `"z"`, `1`
	if nullTop {
		top = "null"
	}
	if nullW {
		w = "null"
	}
	doc := `{"top":` + top + `,"am":[],"ol":{"v":"q","w":` + w + `}}`
	v := new(vt.Deep)
	r, _ := restlicodec.NewJsonReader([]byte(doc))
	err := v.UnmarshalRestLi(r)
	if nullTop {
		mf, ok := err.(*restlicodec.MissingRequiredFieldsError)
		verif.Assert(ok && len(mf.Fields) == 1 && mf.Fields[0] == "top", "null required field not reported as missing")
	} else {
		verif.Assert(err == nil, "document rejected")
	}
	verif.Assert(v.Ol != nil && (v.Ol.W == nil) == nullW, "null optional field not treated as absent")
	verif.Cover("decoded")
}

// Harness_C06_Wide: a record with 66 required fields (more than a machine
// word has bits); two solver-chosen fields may be absent. Exactly the absent
// ones are reported, whatever their index.
// full 0: the absent fields are chosen among the indices around the word-size
// boundaries; full 1: among all 66.
func Harness_C06_Wide(format, full int) {
	d := c06DocFor(format)
	name := func(i int) string { return "f" + string(rune('0'+i/10)) + string(rune('0'+i%10)) }
	var drop1, drop2 int // 66 = nothing dropped
	if full == 1 {
		drop1, drop2 = verif.Choose(67), verif.Choose(67)
	} else {
		menu := []int{0, 31, 32, 63, 64, 65, 66}
		drop1, drop2 = menu[verif.Choose(len(menu))], menu[verif.Choose(len(menu))]
	}
	var fields, want []string
	for i := 0; i < 66; i++ {
		if i == drop1 || i == drop2 {
			want = append(want, name(i))
			continue
		}
		fields = append(fields, d.kv(name(i), d.str("v")))
	}
	doc := d.obj(fields)
	v := new(vt.Wide)
	err := v.UnmarshalRestLi(c06Reader(d, doc))
	if len(want) == 0 {
		verif.Assert(err == nil, "a complete document of a 66-field record was rejected")
		verif.Cover("complete")
	} else {
		mf, ok := err.(*restlicodec.MissingRequiredFieldsError)
		verif.Assert(ok, "missing required fields not reported")
		got := append([]string(nil), mf.Fields...)
		sort.Strings(got)
		sort.Strings(want)
		verif.Assert(strings.Join(got, " ") == strings.Join(want, " "), "missing set is ["+strings.Join(got, " ")+"] want ["+strings.Join(want, " ")+"]")
		verif.Cover("missing-reported")
	}
	verif.Assert(v.F00 == "v" || drop1 == 0 || drop2 == 0, "present field not populated")
	verif.Assert(v.F65 == "v" || drop1 == 65 || drop2 == 65, "present field not populated")
}

// Harness_C06_AllOptionalTop: the record at the start of the input has no
// required field of its own (Opt: child?, items?, byName?), the records nested
// in it do (Leaf.v): their missing fields are still reported, by full path.
func Harness_C06_AllOptionalTop(format int) {
	d := c06DocFor(format)
	leaf := func(hasV bool) string {
		if hasV {
			return d.obj([]string{d.kv("v", d.str("x"))})
		}
		return d.obj(nil)
	}
	var top, want []string
	if verif.Bool() {
		hv := verif.Bool()
		top = append(top, d.kv("child", leaf(hv)))
		if !hv {
			want = append(want, "child.v")
		}
	}
	if verif.Bool() {
		h0, h1 := verif.Bool(), verif.Bool()
		top = append(top, d.kv("items", d.arr([]string{leaf(h0), leaf(h1)})))
		if !h0 {
			want = append(want, "items[0].v")
		}
		if !h1 {
			want = append(want, "items[1].v")
		}
	}
	if verif.Bool() {
		hv := verif.Bool()
		top = append(top, d.kv("byName", d.obj([]string{d.kv("b", leaf(hv))})))
		if !hv {
			want = append(want, "byName.b.v")
		}
	}
	doc := d.obj(top)
	v := new(vt.Opt)
	err := v.UnmarshalRestLi(c06Reader(d, doc))
	if len(want) == 0 {
		verif.Assert(err == nil, "a complete document was rejected: "+doc)
		verif.Cover("complete")
		return
	}
	mf, ok := err.(*restlicodec.MissingRequiredFieldsError)
	verif.Assert(ok, "missing required fields of nested records were not reported for "+doc)
	got := append([]string(nil), mf.Fields...)
	sort.Strings(got)
	sort.Strings(want)
	verif.Assert(strings.Join(got, " ") == strings.Join(want, " "), "missing set is ["+strings.Join(got, " ")+"] want ["+strings.Join(want, " ")+"] for "+doc)
	verif.Cover("missing-reported")
}

func Harness_C06_Twin(format int) {
	d := c06DocFor(format)
	var top []string
	if verif.Bool() {
		top = append(top, d.kv("top", d.str("z")))
	}
	top = append(top, d.kv("am", d.arr(nil)))
	v := new(vt.Deep)
	verif.Assert(v.UnmarshalRestLi(c06Reader(d, d.obj(top))) == nil, "twin: some document misses a field")
}
