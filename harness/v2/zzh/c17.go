package zzh

import (
	"bytes"
	"io"
	"net/http"
	"net/url"

	"MODULE/restli"
	common "MODULE/restlidata/generated/com/linkedin/restli/common"
	verif "MODULE/zzverif"
	"MODULE/zzvt/vt"
	"MODULE/zzvt/vtr/things"
)

// C17, server handler and client: N concurrent requests of mixed methods
// against one handler (and through one client) are free of data races in the
// library (engine happens-before detector), and each request gets the answer
// it would get alone: its own key, parameters, status and error object.
//
// The resource below is a pure function of its arguments apart from the error
// object it returns for key "bad", which is deliberately ONE shared object (a
// package-level sentinel, as applications write them): the library must not
// write to it. The harness keeps one result slot per thread.

var c17Gone = &common.ErrorResponse{} // status-less and message-less: whatever the handler fills in must not land here

type c17Things struct{}

func c17Fail(key string) error {
	if key == "bad" {
		return c17Gone
	}
	return nil
}

func (c17Things) Get(ctx *restli.RequestContext, thingId string) (*vt.Item, error) {
	if err := c17Fail(thingId); err != nil {
		return nil, err
	}
	ctx.ResponseHeaders.Set("X-Seen", thingId)
	return &vt.Item{Name: "item-" + thingId}, nil
}
func (c17Things) Create(ctx *restli.RequestContext, entity *vt.Item) (*things.CreatedEntity, error) {
	return &things.CreatedEntity{Id: "id-" + entity.Name}, nil
}
func (c17Things) Update(ctx *restli.RequestContext, thingId string, entity *vt.Item) error {
	return c17Fail(thingId)
}
func (c17Things) PartialUpdate(ctx *restli.RequestContext, thingId string, entity *vt.Item_PartialUpdate) error {
	return c17Fail(thingId)
}
func (c17Things) Delete(ctx *restli.RequestContext, thingId string) error {
	if thingId == "teapot" {
		ctx.ResponseStatus = 418
	}
	return c17Fail(thingId)
}
func (c17Things) GetAll(ctx *restli.RequestContext) (*things.Elements, error) {
	return &things.Elements{Elements: []*vt.Item{{Name: "all"}}}, nil
}
func (c17Things) BatchGet(ctx *restli.RequestContext, keys []string) (*things.BatchEntities, error) {
	r := &things.BatchEntities{}
	for _, k := range keys {
		r.AddResult(k, &vt.Item{Name: "item-" + k})
	}
	return r, nil
}
func (c17Things) BatchCreate(ctx *restli.RequestContext, entities []*vt.Item) ([]*things.CreatedEntity, error) {
	return nil, nil
}
func (c17Things) BatchUpdate(ctx *restli.RequestContext, entities map[string]*vt.Item) (*things.BatchResponse, error) {
	return &things.BatchResponse{}, nil
}
func (c17Things) BatchPartialUpdate(ctx *restli.RequestContext, entities map[string]*vt.Item_PartialUpdate) (*things.BatchResponse, error) {
	return &things.BatchResponse{}, nil
}
func (c17Things) BatchDelete(ctx *restli.RequestContext, keys []string) (*things.BatchResponse, error) {
	return &things.BatchResponse{}, nil
}
func (c17Things) FindBySearch(ctx *restli.RequestContext, p *things.FindBySearchParams) (*things.Elements, error) {
	return &things.Elements{Elements: []*vt.Item{{Name: "found-" + p.Kw}}}, nil
}
func (c17Things) FindByWithMeta(ctx *restli.RequestContext, p *things.FindByWithMetaParams) (*things.FindByWithMetaElements, error) {
	return &things.FindByWithMetaElements{}, nil
}
func (c17Things) FindByCrit(ctx *restli.RequestContext, p *things.FindByCritParams) (*things.Elements, error) {
	return &things.Elements{}, nil
}
func (c17Things) PingAction(ctx *restli.RequestContext, p *things.PingActionParams) (string, error) {
	return "pong-" + p.Msg, nil
}
func (c17Things) TouchAction(ctx *restli.RequestContext, thingId string) error { return c17Fail(thingId) }

func c17Handler() http.Handler {
	s := restli.NewServer()
	things.RegisterResource(s, c17Things{})
	return s.Handler()
}

type c17Req struct {
	verb, target, method, body string
	wantStatus                int
	wantInBody, wantHeader    string
}

// the menu of requests; tag distinguishes the two threads' keys and parameters
func c17Request(kind int, tag string) c17Req {
	switch kind {
	case 0:
		return c17Req{verb: "GET", target: "/things/k" + tag, wantStatus: 200, wantInBody: `"item-k` + tag + `"`, wantHeader: "k" + tag}
	case 1:
		return c17Req{verb: "GET", target: "/things/bad", wantStatus: 500, wantInBody: `"message":"Internal Server Error"`}
	case 2:
		return c17Req{verb: "DELETE", target: "/things/teapot", wantStatus: 418}
	case 3:
		return c17Req{verb: "GET", target: "/things?q=search&kw=w" + tag, wantStatus: 200, wantInBody: `"found-w` + tag + `"`}
	case 4:
		return c17Req{verb: "POST", target: "/things?action=ping", method: "action", body: `{"msg":"m` + tag + `"}`, wantStatus: 200, wantInBody: `"pong-m` + tag + `"`}
	case 5:
		return c17Req{verb: "POST", target: "/things", method: "create", body: `{"name":"n` + tag + `"}`, wantStatus: 201, wantHeader: "id-n" + tag}
	case 6:
		return c17Req{verb: "GET", target: "/nothing/" + tag, wantStatus: 404}
	}
	return c17Req{verb: "PUT", target: "/things/k" + tag, body: `{"name":`, wantStatus: 400}
}

const c17Kinds = 8

func c17Serve(h http.Handler, r c17Req) *recorder {
	var body []byte
	if r.body != "" {
		body = []byte(r.body)
	}
	var headers map[string]string
	if r.method != "" {
		headers = map[string]string{restli.MethodHeader: r.method}
	}
	rec, _ := serve(h, r.verb, r.target, headers, body)
	return rec
}

// c17Same: the concurrent answer equals the answer the same request gets alone.
func c17Same(r c17Req, serial, rec *recorder, who string) {
	verif.Assert(rec != nil && serial != nil, who+": no response")
	what := r.verb + " " + r.target
	verif.Assert(rec.status == serial.status, who+": status differs from the serial outcome for "+what+": "+rec.body.String())
	verif.Assert(rec.body.String() == serial.body.String(), who+": body differs from the serial outcome for "+what+": "+rec.body.String()+" vs "+serial.body.String())
	for _, h := range []string{"X-Seen", restli.IDHeader, restli.ErrorResponseHeader, restli.ProtocolVersionHeader, "Content-Type"} {
		verif.Assert(rec.header.Get(h) == serial.header.Get(h), who+": response header "+h+" differs from the serial outcome for "+what)
	}
	verif.Assert(rec.status == r.wantStatus, who+": harness: unexpected serial status for "+what+": "+rec.body.String())
}

// Harness_C17G_Server: nthreads (2..3) concurrent requests, kinds solver-chosen.
func Harness_C17G_Server(nthreads int) {
	h := c17Handler()
	reqs := make([]c17Req, nthreads)
	recs := make([]*recorder, nthreads)
	serial := make([]*recorder, nthreads)
	for t := range reqs {
		reqs[t] = c17Request(verif.Choose(c17Kinds), string(rune('a'+t)))
		serial[t] = c17Serve(c17Handler(), reqs[t]) // alone, on a handler of its own
	}
	verif.RaceDetect(true)
	for t := range reqs {
		t := t
		verif.Go(func() { recs[t] = c17Serve(h, reqs[t]) })
	}
	verif.RunThreads(-1)
	verif.RaceDetect(false)
	for t := range reqs {
		c17Same(reqs[t], serial[t], recs[t], "T"+string(rune('0'+t)))
	}
	verif.Assert(c17Gone.Status == nil && c17Gone.Message == nil, "the handler wrote into the error object shared by the resource")
	verif.Cover("served")
}

// c17Transport: a loopback without any shared mutable field.
type c17Transport struct{ h http.Handler }

func (l c17Transport) RoundTrip(req *http.Request) (*http.Response, error) {
	target := req.URL.RequestURI()
	var body []byte
	if req.Body != nil {
		body, _ = io.ReadAll(req.Body)
		req.Body.Close()
	}
	rec := newRecorder()
	u, err := url.ParseRequestURI(target)
	if err != nil {
		rec.WriteHeader(http.StatusBadRequest)
	} else {
		sreq := &http.Request{Method: req.Method, URL: u, RequestURI: target, Header: http.Header{}, Body: io.NopCloser(bytes.NewReader(body))}
		for k, v := range req.Header {
			sreq.Header[k] = append([]string(nil), v...)
		}
		l.h.ServeHTTP(rec, sreq)
	}
	return &http.Response{StatusCode: rec.status, Status: http.StatusText(rec.status), Header: rec.header,
		Body: io.NopCloser(bytes.NewReader(rec.body.Bytes())), Request: req}, nil
}

// Harness_C17G_Client: two goroutines share one generated client (and through
// it one restli.Client and one handler); call kinds solver-chosen.
func Harness_C17G_Client() {
	u, _ := url.Parse("http://h")
	c := &restli.Client{
		Client:                   &http.Client{Transport: c17Transport{c17Handler()}},
		HostnameResolver:         &restli.SimpleHostnameResolver{Hostname: u},
		QueryTunnellingThreshold: []int{0, 1}[verif.Choose(2)],
	}
	tc := things.NewClient(c)
	var kinds [2]int
	var okRes [2]bool
	var what [2]string
	for t := range kinds {
		kinds[t] = verif.Choose(5)
	}
	verif.RaceDetect(true)
	for t := range kinds {
		t := t
		tag := string(rune('a' + t))
		verif.Go(func() {
			switch kinds[t] {
			case 0:
				it, err := tc.Get("k" + tag)
				okRes[t] = err == nil && it != nil && it.Name == "item-k"+tag
				what[t] = "get"
			case 1:
				_, err := tc.Get("bad")
				re, isRe := err.(*restli.Error)
				okRes[t] = isRe && re.Status != nil && *re.Status == 500
				what[t] = "failing get"
			case 2:
				res, err := tc.FindBySearch(&things.FindBySearchParams{Kw: "w" + tag})
				okRes[t] = err == nil && res != nil && len(res.Elements) == 1 && res.Elements[0].Name == "found-w"+tag
				what[t] = "finder"
			case 3:
				s, err := tc.PingAction(&things.PingActionParams{Msg: "m" + tag})
				okRes[t] = err == nil && s == "pong-m"+tag
				what[t] = "action"
			default:
				res, err := tc.BatchGet([]string{"x" + tag, "y" + tag})
				okRes[t] = err == nil && res != nil && len(res.Results) == 2 && res.Results["x"+tag] != nil && res.Results["x"+tag].Name == "item-x"+tag
				what[t] = "batch get"
			}
		})
	}
	verif.RunThreads(-1)
	verif.RaceDetect(false)
	for t := range kinds {
		verif.Assert(okRes[t], "concurrent "+what[t]+" call did not return its own serial outcome")
	}
	verif.Cover("called")
}

// Harness_C17G_Twin: reachability: both threads' requests are served.
func Harness_C17G_Twin() {
	h := c17Handler()
	var recs [2]*recorder
	verif.RaceDetect(true)
	for t := range recs {
		t := t
		verif.Go(func() { recs[t], _ = serve(h, "GET", "/things/k", nil, nil) })
	}
	verif.RunThreads(-1)
	verif.Assert(recs[0] == nil || recs[1] == nil || recs[0].status != 200, "twin: both concurrent requests were served")
}
