package zzh

import (
	"bytes"
	"io"
	"net/http"
	"strings"

	"MODULE/restli"
	"MODULE/restlicodec"
	"MODULE/restlidata/generated/com/linkedin/restli/common"
	verif "MODULE/zzverif"
	"MODULE/zzvt/vt"
	"MODULE/zzvt/vtr/things"
)

// C08: whatever a resource method reports reaches the caller faithfully.

type c08Req struct {
	verb, target, header, body, mockMethod string
	defaultStatus                        int
	returnsEntity                        bool
}

var c08Reqs = []c08Req{
	{"GET", "/things/k", "get", "", "get", 200, true},
	{"POST", "/things", "create", `{"name":"n"}`, "create", 201, false},
	{"PUT", "/things/k", "update", `{"name":"n"}`, "update", 204, false},
	{"DELETE", "/things/k", "delete", "", "delete", 204, false},
	{"POST", "/things?action=ping", "action", `{"msg":"m"}`, "action:ping", 200, false},
	{"GET", "/things?q=search&kw=x&lim=1", "finder", "", "finder:search", 200, true},
	{"GET", "/things?ids=List(a)", "batch_get", "", "batch_get", 200, true},
	{"POST", "/things/k", "partial_update", `{"patch":{"$set":{"name":"n"}}}`, "partial_update", 204, false},
	{"GET", "/things?q=withMeta&c=RED", "finder", "", "finder:withMeta", 200, true},
	{"GET", "/things", "get_all", "", "get_all", 200, true},
}

func c08OptString(n int) *string {
	if !verif.Bool() {
		return nil
	}
	s := verif.String(n)
	verif.Assume(c09ValidUTF8(s))
	return &s
}

func c09ValidUTF8(s string) bool {
	for _, r := range s {
		if r == 0xFFFD {
			return false
		}
	}
	return true
}

func c08CopyErr(e *common.ErrorResponse) *common.ErrorResponse {
	c := *e
	dup := func(p *string) *string {
		if p == nil {
			return nil
		}
		v := *p
		return &v
	}
	if e.Status != nil {
		v := *e.Status
		c.Status = &v
	}
	if e.ServiceErrorCode != nil {
		v := *e.ServiceErrorCode
		c.ServiceErrorCode = &v
	}
	c.Code, c.Message, c.DocUrl, c.RequestId = dup(e.Code), dup(e.Message), dup(e.DocUrl), dup(e.RequestId)
	c.ExceptionClass, c.StackTrace, c.ErrorDetailType = dup(e.ExceptionClass), dup(e.StackTrace), dup(e.ErrorDetailType)
	return &c
}

func c08SameOpt(a, b *string) bool {
	if a == nil || b == nil {
		return a == nil && b == nil
	}
	return *a == *b
}

func c08Response(req c08Req, rec *recorder) *http.Response {
	return &http.Response{StatusCode: rec.status, Status: http.StatusText(rec.status), Header: rec.header,
		Body: io.NopCloser(bytes.NewReader(rec.body.Bytes())), Request: &http.Request{Method: req.verb}}
}

// c08Wrap is an ordinary application error that wraps another one.
type c08Wrap struct {
	msg   string
	inner error
}

func (w *c08Wrap) Error() string { return w.msg + ": " + w.inner.Error() }
func (w *c08Wrap) Unwrap() error { return w.inner }

// Harness_C08_Outcome: request kind r (index into c08Reqs), outcome o:
// 0 success, 1 success with overridden status, 2 Rest.li error response with
// symbolic fields, 3 plain error, 4 panic, 5 nil result pointer without error
// (entity, finder elements, batch or get_all result),
// 6 an ordinary error that wraps a Rest.li error response (it is "any other
// error": failure status, its message, error header).
func Harness_C08_Outcome(r, o, n int) {
	rq := c08Reqs[r]
	if o == 5 && !rq.returnsEntity {
		return
	}
	m := &mockThings{item: &vt.Item{Name: "x"}}
	var held, before *common.ErrorResponse
	override := 0
	switch o {
	case 1:
		override = []int{200, 201, 202, 204, 299}[verif.Choose(5)]
	case 2:
		held = &common.ErrorResponse{}
		if k := verif.Choose(6); k > 0 {
			st := []int32{0, 400, 404, 409, 500, 599}[k]
			held.Status = &st
		}
		held.Message = c08OptString(n)
		// pass-through fields: presence is symbolic, content fixed
		if verif.Bool() {
			c := "CODE \"q\""
			held.Code = &c
		}
		if verif.Bool() {
			c := "com.x.Ex"
			held.ExceptionClass = &c
		}
		if verif.Bool() {
			sc := int32(-7)
			held.ServiceErrorCode = &sc
		}
		before = c08CopyErr(held)
	case 5:
		m.item = nil
		m.nilResult = true
	}
	m.outcomeCtx = func(ctx *restli.RequestContext, method string) error {
		if method != rq.mockMethod {
			return nil
		}
		switch o {
		case 1:
			ctx.ResponseStatus = override
		case 2:
			return held
		case 3:
			return errPlain
		case 4:
			panic("resource exploded")
		case 6:
			st := int32(404)
			return &c08Wrap{"wrapped failure", &common.ErrorResponse{Status: &st}}
		}
		return nil
	}
	h := newServer(m)
	var rec *recorder
	panicked, msg := verif.Try(func() {
		rec, _ = serve(h, rq.verb, rq.target, map[string]string{restli.MethodHeader: rq.header}, []byte(rq.body))
	})
	verif.Assert(!panicked, "the handler let a panic escape: "+msg)
	verif.Assert(len(m.calls) == 1 && m.calls[0].method == rq.mockMethod, "request did not reach the intended method")
	verif.Cover("served")
	errHeader := strings.ToLower(rec.header.Get(restli.ErrorResponseHeader)) == "true"
	clientErr := restli.IsErrorResponse(c08Response(rq, rec))

	switch o {
	case 0, 1:
		verif.Assert(!errHeader, "error header on a successful call")
		want := rq.defaultStatus
		if o == 1 {
			want = override
		}
		// create fills its status from the created entity only when non-zero; an explicit override wins otherwise
		verif.Assert(rec.status == want, "wrong success status: got "+http.StatusText(rec.status)+" want "+http.StatusText(want))
		if rec.status/100 == 2 {
			verif.Assert(clientErr == nil, "client reports an error for a successful call")
		}
		verif.Cover("success")
	case 2:
		verif.Assert(errHeader, "error header missing for a Rest.li error response")
		wantStatus := 500
		if before.Status != nil {
			wantStatus = int(*before.Status)
		}
		verif.Assert(rec.status == wantStatus, "HTTP status does not equal the error response's status (500 when unset)")
		ce, ok := clientErr.(*restli.Error)
		verif.Assert(ok, "client did not turn the response into a Rest.li error")
		verif.Assert(ce.DeserializationError == nil, "client could not decode the error body")
		verif.Assert(ce.Status != nil && int(*ce.Status) == wantStatus, "client error carries the wrong status")
		if before.Message != nil {
			verif.Assert(c08SameOpt(ce.Message, before.Message), "message changed on the way to the client")
		}
		verif.Assert(c08SameOpt(ce.Code, before.Code), "code changed on the way to the client")
		verif.Assert(c08SameOpt(ce.ExceptionClass, before.ExceptionClass), "exception class changed on the way to the client")
		if before.ServiceErrorCode == nil {
			verif.Assert(ce.ServiceErrorCode == nil, "service error code invented")
		} else {
			verif.Assert(ce.ServiceErrorCode != nil && *ce.ServiceErrorCode == *before.ServiceErrorCode, "service error code changed")
		}
		// the object held by the resource implementation is untouched
		verif.Assert((held.Status == nil) == (before.Status == nil), "the resource's error object was modified (status)")
		verif.Assert(c08SameOpt(held.Message, before.Message), "the resource's error object was modified (message)")
		verif.Assert(c08SameOpt(held.Code, before.Code) && c08SameOpt(held.ExceptionClass, before.ExceptionClass), "the resource's error object was modified")
		verif.Cover("error-response")
	case 3, 4, 5, 6:
		verif.Assert(rec.status >= 400, "failure reported with a success status")
		verif.Assert(errHeader, "failure not reported as an error response")
		ce, ok := clientErr.(*restli.Error)
		verif.Assert(ok, "client did not receive a Rest.li error")
		verif.Assert(ce.DeserializationError == nil, "error body is not a complete JSON document")
		verif.Assert(ce.Message != nil, "failure carries no message")
		if o == 3 {
			verif.Assert(strings.Contains(*ce.Message, "plain failure"), "the error's message was lost")
		}
		if o == 4 {
			verif.Assert(strings.Contains(*ce.Message, "resource exploded"), "the panic's message was lost")
		}
		if o == 6 {
			verif.Assert(strings.Contains(*ce.Message, "wrapped failure"), "the wrapping error's message was lost")
		}
		verif.Cover("failure")
	}
}

// Harness_C08_BatchErrors: per-key errors in a batch response arrive under the right key.
func Harness_C08_BatchErrors() {
	m := &mockThings{item: &vt.Item{Name: "x"}}
	st := 404 + int32(verif.Choose(3))
	okKey, badKey := "a", "b"
	m.batch = &things.BatchEntities{
		Results:  map[string]*vt.Item{okKey: {Name: "found"}},
		Statuses: map[string]int{okKey: 200},
		Errors:   map[string]*common.ErrorResponse{badKey: {Status: &st}},
	}
	h := newServer(m)
	rec, _ := serve(h, "GET", "/things?ids=List(a,b)", map[string]string{restli.MethodHeader: "batch_get"}, nil)
	verif.Assert(rec.status == 200, "batch get failed")
	r, err := restlicodec.NewJsonReader(rec.body.Bytes())
	verif.Assert(err == nil, "empty body")
	got := &things.BatchEntities{}
	verif.Assert(got.UnmarshalRestLi(r) == nil, "batch response does not decode")
	verif.Assert(got.Results[okKey] != nil && got.Results[okKey].Name == "found", "result lost or under the wrong key")
	e := got.Errors[badKey]
	verif.Assert(e != nil && e.Status != nil && *e.Status == st, "per-key error lost or under the wrong key")
	verif.Assert(got.Errors[okKey] == nil && got.Results[badKey] == nil, "entries attached to the wrong key")
	verif.Cover("batch-errors")
}

func Harness_C08_Twin() {
	m := &mockThings{item: &vt.Item{Name: "x"}}
	m.outcomeCtx = func(ctx *restli.RequestContext, method string) error {
		if verif.Bool() {
			return errPlain
		}
		return nil
	}
	h := newServer(m)
	rec, _ := serve(h, "GET", "/things/k", map[string]string{restli.MethodHeader: "get"}, nil)
	verif.Assert(rec.status == 200, "twin: some outcome is a failure")
}

// Harness_C08_Sequence: what a request reports does not depend on the request
// served before it by the same handler: a solver-chosen first request (success
// with another default status, overridden status, error response, plain
// error, unknown resource) is followed by a successful one whose status must
// be its own default. sync.Pool hands back what was put into it, so state kept
// in pooled per-request objects would show.
func Harness_C08_Sequence(second int) {
	first := verif.Choose(len(c08Reqs))
	firstOutcome := verif.Choose(5)
	m := &mockThings{item: &vt.Item{Name: "x"}}
	phase := 0
	m.outcomeCtx = func(ctx *restli.RequestContext, method string) error {
		if phase != 0 {
			return nil
		}
		switch firstOutcome {
		case 1:
			ctx.ResponseStatus = 299
		case 2:
			st := int32(409)
			return &common.ErrorResponse{Status: &st}
		case 3:
			return errPlain
		}
		return nil
	}
	verif.PoolReuse(true)
	h := newServer(m)
	rq := c08Reqs[first]
	target := rq.target
	if firstOutcome == 4 {
		target = "/nothing-here"
	}
	_, _ = serve(h, rq.verb, target, map[string]string{restli.MethodHeader: rq.header}, []byte(rq.body))
	phase = 1
	m.calls = nil
	rq2 := c08Reqs[second]
	rec, _ := serve(h, rq2.verb, rq2.target, map[string]string{restli.MethodHeader: rq2.header}, []byte(rq2.body))
	verif.PoolReuse(false)
	verif.Assert(len(m.calls) == 1 && m.calls[0].method == rq2.mockMethod, "the second request did not reach its method")
	verif.Assert(rec.status == rq2.defaultStatus, "the status of a successful request depends on the request served before it: got "+http.StatusText(rec.status)+" want "+http.StatusText(rq2.defaultStatus))
	verif.Assert(strings.ToLower(rec.header.Get(restli.ErrorResponseHeader)) != "true", "error header on a successful request after another request")
	verif.Cover("sequence")
}
