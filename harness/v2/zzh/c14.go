package zzh

import (
	"bytes"
	"context"
	"net/http"

	"MODULE/restli"
	verif "MODULE/zzverif"
	"MODULE/zzvt/vt"
)

// C14 at the server: malformed tunnelled requests are answered 400 and reach
// neither filters nor resource code.

type c14Filter struct{ seen int }

func (f *c14Filter) PreRequest(req *http.Request) (context.Context, error) { f.seen++; return nil, nil }
func (f *c14Filter) PostRequest(ctx context.Context, h http.Header) error  { return nil }

// c14gBody builds the body shapes (see harness/common/restli/c14.go).
func c14gBody(kind int) (body []byte, contentType string) {
	nb, h := restli.EncodeTunnelledQuery("PUT", "q=search&kw=a", []byte(`{"name":"n"}`))
	ct := h.Get(restli.ContentTypeHeader)
	bnd := bytes.SplitN(nb[2:], []byte("\r\n"), 2)[0]
	parts := bytes.SplitN(nb, []byte("\r\n--"), 3)
	closing := append(append([]byte("\r\n--"), bnd...), []byte("--\r\n")...)
	switch kind {
	case 0:
		return []byte("q=search&kw=a"), restli.FormUrlEncodedContentType
	case 1:
		return nb, ct
	case 2: // JSON part only
		out := append([]byte("--"), bnd...)
		out = append(out, parts[1][len(bnd):]...)
		return append(out, closing...), ct
	case 3:
		return []byte(`{"name":"n"}`), restli.ApplicationJsonContentType
	case 4:
		return nil, ""
	case 5: // query part only
		return append(append([]byte{}, parts[0]...), closing...), ct
	case 6: // unknown part type
		return bytes.Replace(nb, []byte(restli.ApplicationJsonContentType), []byte("text/plain"), 1), ct
	}
	return []byte{}, restli.FormUrlEncodedContentType
}

// Harness_C14G_Rejected: mode 0: override header + URL query (n symbolic
// bytes) with every body shape 0..7; mode 1: no URL query, the malformed
// bodies 2 (no query part), 5 (no body part), 6 (unknown part type), 3 (not a
// tunnel: plain JSON), 4 (nothing).
func Harness_C14G_Rejected(mode, n int) {
	m := &mockThings{item: &vt.Item{Name: "x"}}
	f := &c14Filter{}
	h := newServer(m, f)
	target := "/things/k"
	var kind int
	if mode == 0 {
		target += "?" + verif.String(n)
		kind = verif.Choose(8)
	} else {
		// 2 no query part, 5 no body part, 6 unknown part type, 3 a body that is
		// no tunnel at all (plain JSON), 4 no body and no content type
		kind = []int{2, 5, 6, 3, 4}[verif.Choose(5)]
	}
	body, ct := c14gBody(kind)
	headers := map[string]string{restli.MethodOverrideHeader: "PUT", restli.MethodHeader: "update"}
	if ct != "" {
		headers[restli.ContentTypeHeader] = ct
	}
	var rec *recorder
	var ok bool
	p, msg := verif.Try(func() { rec, ok = serve(h, "POST", target, headers, body) })
	verif.Assert(!p, "handler panicked: "+msg)
	if !ok {
		return // request line rejected by net/http itself
	}
	verif.Assert(len(m.calls) == 0 && f.seen == 0, "a malformed tunnelled request reached filter or resource code")
	verif.Assert(rec.status == 400, "a malformed tunnelled request was not answered 400: "+rec.body.String())
	verif.Cover("rejected")
}

// Harness_C14G_Twin: the well-formed multipart tunnel (shape 1, no URL query)
// does reach the resource.
func Harness_C14G_Twin() {
	m := &mockThings{item: &vt.Item{Name: "x"}}
	h := newServer(m)
	nb, hd := restli.EncodeTunnelledQuery("PUT", "", []byte(`{"name":"n"}`))
	_ = nb
	body, ct := c14gBody(1)
	_ = hd
	headers := map[string]string{restli.MethodOverrideHeader: "PUT", restli.MethodHeader: "update", restli.ContentTypeHeader: ct}
	rec, _ := serve(h, "POST", "/things/k", headers, body)
	verif.Assert(len(m.calls) == 0, "twin: reached resource code with status "+string(rune('0'+rec.status/100)))
}
