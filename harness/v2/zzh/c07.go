package zzh

import (
	"strings"
	"MODULE/restli"
	"MODULE/restlicodec"
	verif "MODULE/zzverif"
	"MODULE/zzvt/vt"
)

// C07 layers 2 (codec) and 3 (bindings).

var c07Specs = [][]string{
	{}, {"id"}, {"note"}, {"id", "note"}, {"sub"}, {"sub/v"}, {"sub/w"}, {"tags"}, {"name"}, {"sub", "sub/v"}, {"nosuch"},
}

func c07Item() *vt.Item {
	id := int64(5)
	note := "nt"
	tags := []string{"t1", "t2"}
	w := int32(3)
	return &vt.Item{Id: &id, Name: "nm", Note: &note, Tags: &tags, Sub: &vt.Leaf{V: "lv", W: &w}}
}

// expectation: which parts of the item survive an exclusion spec
func c07Apply(spec []string, it *vt.Item) (dropSubV bool) {
	for _, d := range spec {
		switch d {
		case "id":
			it.Id = nil
		case "note":
			it.Note = nil
		case "sub":
			it.Sub = nil
		case "sub/v":
			dropSubV = true
		case "sub/w":
			if it.Sub != nil {
				it.Sub.W = nil
			}
		case "tags":
			it.Tags = nil
		case "tags/*":
			if it.Tags != nil {
				it.Tags = &[]string{}
			}
		case "name":
			it.Name = ""
		}
	}
	return dropSubV
}

// Harness_C07_Writer: an encoder configured with a spec omits exactly the
// matching values with their subtrees.
func Harness_C07_Writer(format int) {
	k := verif.Choose(len(c07Specs))
	spec := restlicodec.NewPathSpec(c07Specs[k]...)
	it := c07Item()
	var enc string
	var err error
	if format == 0 {
		w := restlicodec.NewCompactJsonWriterWithExcludedFields(spec)
		err = it.MarshalRestLi(w)
		enc = w.Finalize()
	} else {
		w := restlicodec.NewRor2HeaderWriterWithExcludedFields(spec)
		err = it.MarshalRestLi(w)
		enc = w.Finalize()
	}
	verif.Assert(err == nil, "encoding with an exclusion spec failed")
	out := new(vt.Item)
	derr := out.UnmarshalRestLi(c13Reader(format, enc))
	want := c07Item()
	dropSubV := c07Apply(c07Specs[k], want)
	// excluded required fields show up as missing when decoding without the spec
	needMissing := want.Name == "" || (dropSubV && want.Sub != nil)
	if needMissing {
		_, ok := derr.(*restlicodec.MissingRequiredFieldsError)
		verif.Assert(ok, "an excluded required field is still on the wire: "+enc)
	} else {
		verif.Assert(derr == nil, "decoding failed: "+enc)
	}
	if dropSubV && want.Sub != nil {
		verif.Assert(out.Sub != nil && out.Sub.V == "", "sub/v not omitted: "+enc)
		want.Sub.V = ""
	}
	verif.Assert(out.Equals(want), "the encoder omitted something else than exactly the excluded paths: "+enc)
	verif.Cover("encoded")
}

// Harness_C07_Reader: a decoder configured with a spec rejects a document iff
// it carries a value at a matching path, and does not report excluded
// required fields as missing.
func Harness_C07_Reader(format int) {
	k := verif.Choose(len(c07Specs))
	// the document: the full item, or the item without the excluded parts
	stripped := verif.Bool()
	it := c07Item()
	dropSubV := false
	if stripped {
		dropSubV = c07Apply(c07Specs[k], it)
	}
	var enc string
	if format == 0 {
		w := restlicodec.NewCompactJsonWriter()
		verif.Assert(it.MarshalRestLi(w) == nil, "encode")
		enc = w.Finalize()
	} else {
		w := restlicodec.NewRor2HeaderWriter()
		verif.Assert(it.MarshalRestLi(w) == nil, "encode")
		enc = w.Finalize()
	}
	if stripped && (it.Name == "" || dropSubV) {
		// removing a required field textually: re-encode through a writer that excludes it
		spec := restlicodec.NewPathSpec(c07Specs[k]...)
		if format == 0 {
			w := restlicodec.NewCompactJsonWriterWithExcludedFields(spec)
			verif.Assert(c07Item().MarshalRestLi(w) == nil, "encode")
			enc = w.Finalize()
		} else {
			w := restlicodec.NewRor2HeaderWriterWithExcludedFields(spec)
			verif.Assert(c07Item().MarshalRestLi(w) == nil, "encode")
			enc = w.Finalize()
		}
	}
	// JSON: explicit nulls (legal for unknown and optional members, and
	// skipped by the reader) ahead of the members at the top level or inside
	// the nested record must not change which paths the later members have
	if format == 0 && len(enc) > 2 {
		switch verif.Choose(4) {
		case 1:
			enc = `{"aq":null,` + enc[1:]
		case 2:
			enc = `{"aq":null,"ar":null,` + enc[1:]
		case 3:
			if i := strings.Index(enc, `"sub":{"`); i >= 0 {
				enc = enc[:i] + `"sub":{"aq":null,` + enc[i+len(`"sub":{`):]
			}
		}
	}
	spec := restlicodec.NewPathSpec(c07Specs[k]...)
	var r restlicodec.Reader
	var err error
	if format == 0 {
		r, err = restlicodec.NewJsonReaderWithExcludedFields([]byte(enc), spec, 0)
	} else {
		r, err = restlicodec.NewRor2ReaderWithExcludedFields(enc, spec, 0)
	}
	verif.Assert(err == nil, "reader")
	out := new(vt.Item)
	derr := out.UnmarshalRestLi(r)
	carries := !stripped && len(c07Specs[k]) > 0 && c07Specs[k][0] != "nosuch"
	if carries {
		_, ok := derr.(restlicodec.ExcludedFieldError)
		verif.Assert(ok, "a document carrying an excluded field was not rejected: "+enc)
		verif.Cover("rejected")
	} else {
		verif.Assert(derr == nil, "a document without excluded fields was rejected (excluded required fields must not be reported missing): "+enc)
		verif.Cover("accepted")
	}
}

// Harness_C07_Client: create never transmits read-only fields, update never
// transmits read-only or create-only fields, a partial update touching one
// fails before anything is sent.
func Harness_C07_Client() {
	m := &mockThings{}
	tc, _, lb := c02Setup(m)
	switch verif.Choose(4) {
	case 0:
		_, err := tc.Create(c07Item())
		verif.Assert(err == nil && len(m.calls) == 1, "create failed")
		got := m.calls[0].item
		verif.Assert(got.Id == nil, "create transmitted the read-only field id")
		verif.Assert(got.Note != nil && *got.Note == "nt" && got.Name == "nm", "create dropped a writable field")
	case 1:
		err := tc.Update("k", c07Item())
		verif.Assert(err == nil && len(m.calls) == 1, "update failed")
		got := m.calls[0].item
		verif.Assert(got.Id == nil, "update transmitted the read-only field id")
		verif.Assert(got.Note == nil, "update transmitted the create-only field note")
		verif.Assert(got.Name == "nm" && got.Sub != nil && got.Sub.V == "lv", "update dropped a writable field")
	case 2:
		p := &vt.Item_PartialUpdate{}
		id := int64(9)
		if verif.Bool() {
			p.Set_Fields.Id = &id
		} else {
			p.Delete_Fields.Note = true
		}
		err := tc.PartialUpdate("k", p)
		verif.Assert(err != nil, "a partial update touching a read-only or create-only field was accepted by the client")
		verif.Assert(lb.requests == 0, "a partial update touching an excluded field was sent")
		verif.Assert(len(m.calls) == 0, "resource invoked")
	case 3:
		p := &vt.Item_PartialUpdate{}
		nm := "new"
		p.Set_Fields.Name = &nm
		err := tc.PartialUpdate("k", p)
		verif.Assert(err == nil && len(m.calls) == 1 && m.calls[0].method == "partial_update", "a legal partial update failed")
		verif.Assert(m.calls[0].patch != nil && m.calls[0].patch.Set_Fields.Name != nil && *m.calls[0].patch.Set_Fields.Name == "new", "patch content changed")
	}
	verif.Cover("client")
}

// Harness_C07_ClientBatch: batch update of n entities (1..3) whose optional
// fields are solver-chosen (so the last field an entity writes may or may not
// be an excluded one): every entity arrives, without its read-only and
// create-only fields and with everything else.
func Harness_C07_ClientBatch(n int) {
	m := &mockThings{}
	tc, _, _ := c02Setup(m)
	ents := map[string]*vt.Item{}
	type shape struct{ id, note, tags, sub bool }
	shapes := map[string]shape{}
	for i := 0; i < n; i++ {
		k := "k" + string(rune('0'+i))
		sh := shape{verif.Bool(), verif.Bool(), verif.Bool(), verif.Bool()}
		it := &vt.Item{Name: "nm-" + k}
		if sh.id {
			v := int64(7)
			it.Id = &v
		}
		if sh.note {
			v := "nt"
			it.Note = &v
		}
		if sh.tags {
			it.Tags = &[]string{"t"}
		}
		if sh.sub {
			it.Sub = &vt.Leaf{V: "lv"}
		}
		ents[k], shapes[k] = it, sh
	}
	_, err := tc.BatchUpdate(ents)
	verif.Assert(err == nil && len(m.calls) == 1 && m.calls[0].method == "batch_update", "batch update failed")
	got := m.calls[0].items
	verif.Assert(len(got) == n, "batch update lost or invented entities")
	for k, sh := range shapes {
		g := got[k]
		verif.Assert(g != nil, "an entity of the batch update did not arrive")
		verif.Assert(g.Id == nil, "batch update transmitted the read-only field id")
		verif.Assert(g.Note == nil, "batch update transmitted the create-only field note")
		verif.Assert(g.Name == "nm-"+k, "batch update dropped or mixed up a writable field")
		verif.Assert((g.Tags != nil) == sh.tags && (g.Sub != nil) == sh.sub, "batch update dropped a writable optional field")
	}
	verif.Cover("client")
}

// Harness_C07_Server: a request body carrying a read-only or create-only
// field is answered 400 and the resource is not invoked.
func Harness_C07_Server() {
	m := &mockThings{item: &vt.Item{Name: "x"}}
	h := newServer(m)
	type rq struct{ verb, target, header, offending, clean string }
	reqs := []rq{
		{"POST", "/things", "create", `{"id":1,"name":"n"}`, `{"name":"n","note":"x"}`},
		{"PUT", "/things/k", "update", `{"name":"n","note":"x"}`, `{"name":"n"}`},
		{"PUT", "/things/k", "update", `{"id":2,"name":"n"}`, `{"name":"n"}`},
		{"POST", "/things/k", "partial_update", `{"patch":{"$set":{"id":3}}}`, `{"patch":{"$set":{"name":"n"}}}`},
		{"POST", "/things/k", "partial_update", `{"patch":{"$delete":["note"]}}`, `{"patch":{"$delete":["tags"]}}`},
		{"POST", "/things", "batch_create", `{"elements":[{"name":"n"},{"id":1,"name":"m"}]}`, `{"elements":[{"name":"n"}]}`},
		{"PUT", "/things?ids=List(a)", "batch_update", `{"entities":{"a":{"name":"n","note":"x"}}}`, `{"entities":{"a":{"name":"n"}}}`},
		{"POST", "/things?ids=List(a)", "batch_partial_update", `{"entities":{"a":{"patch":{"$set":{"id":3}}}}}`, `{"entities":{"a":{"patch":{"$set":{"name":"n"}}}}}`},
	}
	r := reqs[verif.Choose(len(reqs))]
	offending := verif.Bool()
	body := r.clean
	if offending {
		body = r.offending
	}
	rec, _ := serve(h, r.verb, r.target, map[string]string{restli.MethodHeader: r.header}, []byte(body))
	if offending {
		verif.Assert(len(m.calls) == 0, "resource invoked with a body carrying an excluded field: "+r.header+" "+body)
		verif.Assert(rec.status == 400, "offending body not answered with 400: "+r.header+" "+body+" -> "+rec.body.String())
		verif.Cover("rejected")
	} else {
		verif.Assert(len(m.calls) == 1, "a clean body was rejected: "+r.header+" "+body+" -> "+rec.body.String())
		verif.Cover("accepted")
	}
}

// Harness_C07_ClientBatchCreate: batch create never transmits read-only fields either.
func Harness_C07_ClientBatchCreate(n int) {
	m := &mockThings{}
	tc, _, _ := c02Setup(m)
	var ents []*vt.Item
	for i := 0; i < n; i++ {
		it := &vt.Item{Name: "nm"}
		if verif.Bool() {
			v := int64(7)
			it.Id = &v
		}
		if verif.Bool() {
			v := "nt"
			it.Note = &v
		}
		ents = append(ents, it)
	}
	_, _ = tc.BatchCreate(ents)
	verif.Assert(len(m.calls) == 1 && m.calls[0].method == "batch_create", "batch create did not reach the resource")
	got := m.calls[0].list
	verif.Assert(len(got) == n, "batch create lost or invented entities")
	for i, g := range got {
		verif.Assert(g.Id == nil, "batch create transmitted the read-only field id")
		verif.Assert((g.Note != nil) == (ents[i].Note != nil) && g.Name == "nm", "batch create dropped a writable field")
	}
	verif.Cover("client")
}
