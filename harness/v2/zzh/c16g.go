package zzh

import (
	"net/http"
	"net/url"
	"unicode/utf8"

	"MODULE/restli"
	common "MODULE/restlidata/generated/com/linkedin/restli/common"
	verif "MODULE/zzverif"
	"MODULE/zzvt/vt"
	"MODULE/zzvt/vtr/cks"
	"MODULE/zzvt/vtr/trs"
)

// C16 through the generated bindings: complex keys (key part + params) and
// typeref keys. The resource answers under the keys it decoded; the caller
// must find every entry under the very key value it supplied.

type c16Cks struct {
	seen     []*vt.Ck
	extraKey *vt.Ck // a key that was never requested, mentioned in the reply
	failKey  string // key part whose entry goes to errors instead of results
}

func (m *c16Cks) Get(ctx *restli.RequestContext, ckId *vt.Ck) (*vt.Leaf, error) {
	m.seen = append(m.seen, ckId)
	return &vt.Leaf{V: "leaf-" + ckId.S}, nil
}
func (m *c16Cks) BatchGet(ctx *restli.RequestContext, keys []*vt.Ck) (*cks.BatchEntities, error) {
	m.seen = append(m.seen, keys...)
	r := &cks.BatchEntities{}
	for _, k := range keys {
		if k.S == m.failKey {
			st := int32(404)
			r.AddError(k, &common.ErrorResponse{Status: &st})
		} else {
			r.AddResult(k, &vt.Leaf{V: "leaf-" + k.S})
		}
	}
	if m.extraKey != nil {
		r.AddResult(m.extraKey, &vt.Leaf{V: "intruder"})
	}
	return r, nil
}
func (m *c16Cks) BatchDelete(ctx *restli.RequestContext, keys []*vt.Ck) (*cks.BatchResponse, error) {
	m.seen = append(m.seen, keys...)
	r := &cks.BatchResponse{}
	for _, k := range keys {
		r.AddResult(k, &common.BatchEntityUpdateResponse{Status: 204})
		r.AddStatus(k, 204)
	}
	return r, nil
}
func (m *c16Cks) BatchUpdate(ctx *restli.RequestContext, entities map[*vt.Ck]*vt.Leaf) (*cks.BatchResponse, error) {
	r := &cks.BatchResponse{}
	for k := range entities {
		m.seen = append(m.seen, k)
		r.AddResult(k, &common.BatchEntityUpdateResponse{Status: 204})
	}
	return r, nil
}
func (m *c16Cks) Create(ctx *restli.RequestContext, entity *vt.Leaf) (*cks.CreatedEntity, error) {
	return &cks.CreatedEntity{Id: &vt.Ck{Inner: vt.Inner{S: "made"}}}, nil
}

type c16Trs struct {
	seen      []vt.Tr
	getParams *trs.GetParams // what Get received
	gotParams bool
}

func (m *c16Trs) Get(ctx *restli.RequestContext, trId vt.Tr, queryParams *trs.GetParams) (*vt.Leaf, error) {
	m.seen = append(m.seen, trId)
	m.getParams, m.gotParams = queryParams, true
	return &vt.Leaf{V: "leaf-" + string(trId)}, nil
}
func (m *c16Trs) BatchGet(ctx *restli.RequestContext, keys []vt.Tr) (*trs.BatchEntities, error) {
	m.seen = append(m.seen, keys...)
	r := &trs.BatchEntities{}
	for _, k := range keys {
		r.AddResult(k, &vt.Leaf{V: "leaf-" + string(k)})
	}
	return r, nil
}

func c16Clients(mc *c16Cks, mt *c16Trs) (cks.Client, trs.Client, *loopback) {
	s := restli.NewServer()
	cks.RegisterResource(s, mc)
	trs.RegisterResource(s, mt)
	lb := &loopback{h: s.Handler()}
	u, _ := url.Parse("http://h")
	c := &restli.Client{
		Client:                        &http.Client{Transport: lb},
		HostnameResolver:              &restli.SimpleHostnameResolver{Hostname: u},
		StrictResponseDeserialization: verif.Bool(),
		QueryTunnellingThreshold:      []int{0, 1}[verif.Choose(2)],
	}
	return cks.NewClient(c), trs.NewClient(c), lb
}

// The key record's defaulted field n is always set by the caller: a server
// built from these bindings fills the default in while decoding the key and
// answers under (n:7,s:..), which is, textually and under Equals, a key the
// caller did not send (the client then reports an unknown key, as C16 asks).
func c16Ck(s string, withParams bool, x int32) *vt.Ck {
	n := int32(5)
	k := &vt.Ck{Inner: vt.Inner{S: s, N: &n}}
	if withParams {
		k.Params = &vt.KParams{X: &x}
	}
	return k
}

// c16Keys: the first key part is n symbolic bytes (valid UTF-8: batch replies
// carry the keys in a JSON document); the second is the same string again (a
// duplicate), or one of a few fixed strings with escaping-relevant characters.
func c16Keys(n int) (string, string) {
	s1 := c02Key(n)
	verif.Assume(utf8.ValidString(s1))
	s2 := []string{s1, "b", "(", "a,b:'c'", "%28"}[verif.Choose(5)]
	return s1, s2
}

// Harness_C16G_Complex: two complex keys whose key parts are symbolic strings
// of n bytes (every byte value), with solver-chosen presence of params.
// op 0 batch_get, 1 batch_delete, 2 get.
func Harness_C16G_Complex(op, n int) {
	s1, s2 := c16Keys(n)
	k1 := c16Ck(s1, verif.Bool(), 1)
	k2 := c16Ck(s2, verif.Bool(), 2)
	mc := &c16Cks{}
	cc, _, lb := c16Clients(mc, &c16Trs{})
	sameKeyPart := s1 == s2
	switch op {
	case 0:
		if verif.Bool() {
			mc.failKey = s2
		}
		res, err := cc.BatchGet([]*vt.Ck{k1, k2})
		if sameKeyPart {
			verif.Assert(err != nil && lb.requests == 0, "keys equal up to their params were not rejected before sending")
			verif.Cover("duplicate")
			return
		}
		if err != nil {
			verif.Fail("batch get with complex keys failed: " + err.Error())
		}
		verif.Assert(res != nil, "batch get with complex keys failed")
		verif.Assert(len(mc.seen) == 2, "each id must be transmitted exactly once")
		for _, k := range mc.seen {
			verif.Assert((k.S == s1 && (k.Params != nil) == (k1.Params != nil)) || (k.S == s2 && (k.Params != nil) == (k2.Params != nil)), "a key or its params changed on the way to the resource")
		}
		verif.Assert(len(res.Results)+len(res.Errors) == 2, "entries lost or duplicated")
		r1 := res.Results[k1]
		verif.Assert(r1 != nil && r1.V == "leaf-"+s1, "result not filed under the caller's own key value")
		if mc.failKey == s2 {
			verif.Assert(res.Errors[k2] != nil && res.Results[k2] == nil, "error not filed under the caller's own key value")
		} else {
			verif.Assert(res.Results[k2] != nil && res.Results[k2].V == "leaf-"+s2, "result attached to a different key")
		}
	case 1:
		res, err := cc.BatchDelete([]*vt.Ck{k1, k2})
		if sameKeyPart {
			verif.Assert(err != nil && lb.requests == 0, "keys equal up to their params were not rejected before sending")
			verif.Cover("duplicate")
			return
		}
		verif.Assert(err == nil && res != nil && len(mc.seen) == 2, "batch delete with complex keys failed")
		verif.Assert(len(res.Results) == 2 && res.Results[k1] != nil && res.Results[k2] != nil, "results not filed under the caller's own key values")
		verif.Assert(len(res.Statuses) == 2 && res.Statuses[k1] == 204 && res.Statuses[k2] == 204, "statuses not filed under the caller's own key values")
	default:
		leaf, err := cc.Get(k1)
		verif.Assert(err == nil && leaf != nil && leaf.V == "leaf-"+s1, "get with a complex key failed")
		verif.Assert(len(mc.seen) == 1 && mc.seen[0].S == s1 && (mc.seen[0].Params != nil) == (k1.Params != nil), "complex key changed on the way to the resource")
		if k1.Params != nil {
			verif.Assert(mc.seen[0].Params.X != nil && *mc.seen[0].Params.X == 1, "params lost")
		}
	}
	verif.Cover("correlated")
}

// Harness_C16G_MapKeys: batch_update takes its keys from a Go map, whose keys
// are distinct as pointers but may be equal as complex keys (same key part,
// params ignored): such a map is refused before anything is sent; otherwise
// every entry comes back under the caller's own pointer.
func Harness_C16G_MapKeys(n int) {
	s1, s2 := c16Keys(n)
	k1 := c16Ck(s1, verif.Bool(), 1)
	k2 := c16Ck(s2, verif.Bool(), 2)
	mc := &c16Cks{}
	cc, _, lb := c16Clients(mc, &c16Trs{})
	res, err := cc.BatchUpdate(map[*vt.Ck]*vt.Leaf{k1: {V: "one"}, k2: {V: "two"}})
	if s1 == s2 {
		verif.Assert(err != nil && lb.requests == 0, "two map keys that are the same complex key were not rejected before sending")
		verif.Cover("duplicate")
		return
	}
	verif.Assert(err == nil && res != nil && len(mc.seen) == 2, "batch update with complex keys failed")
	verif.Assert(len(res.Results) == 2 && res.Results[k1] != nil && res.Results[k2] != nil, "results not filed under the caller's own key values")
	verif.Cover("correlated")
}

// Harness_C16G_Unrequested: the reply mentions a complex key nobody asked for.
func Harness_C16G_Unrequested(n int) {
	s1 := c02Key(n)
	verif.Assume(utf8.ValidString(s1))
	verif.Assume(s1 != "zz")
	mc := &c16Cks{extraKey: c16Ck("zz", false, 0)}
	cc, _, _ := c16Clients(mc, &c16Trs{})
	res, err := cc.BatchGet([]*vt.Ck{c16Ck(s1, verif.Bool(), 1)})
	verif.Assert(err != nil, "a reply mentioning a key that was never requested was accepted")
	_ = res
	verif.Cover("rejected")
}

// Harness_C16G_Typeref: typeref (string) keys of n symbolic bytes.
func Harness_C16G_Typeref(n int) {
	s1, s2 := c16Keys(n)
	mt := &c16Trs{}
	_, tc, lb := c16Clients(&c16Cks{}, mt)
	res, err := tc.BatchGet([]vt.Tr{vt.Tr(s1), vt.Tr(s2)})
	if s1 == s2 {
		verif.Assert(err != nil && lb.requests == 0, "duplicate typeref keys were not rejected before sending")
		verif.Cover("duplicate")
		return
	}
	if err != nil {
		verif.Fail("batch get with typeref keys failed: " + err.Error())
	}
	verif.Assert(res != nil && len(mt.seen) == 2, "batch get with typeref keys failed")
	verif.Assert(len(res.Results) == 2 && res.Results[vt.Tr(s1)] != nil && res.Results[vt.Tr(s1)].V == "leaf-"+s1 && res.Results[vt.Tr(s2)] != nil && res.Results[vt.Tr(s2)].V == "leaf-"+s2, "results not filed under the caller's keys")
	verif.Cover("correlated")
}


// Harness_C02G_OptionalParams (C02): a REST method whose declared parameters
// are all optional: whichever subset the caller sets (including none), the
// resource receives a parameter object with exactly that content.
func Harness_C02G_OptionalParams(n int) {
	mt := &c16Trs{}
	_, tc, _ := c16Clients(&c16Cks{}, mt)
	p := &trs.GetParams{}
	if verif.Bool() {
		s := verif.String(n)
		p.Opt = &s
	}
	if verif.Bool() {
		c := int32(7)
		p.Cnt = &c
	}
	leaf, err := tc.Get(vt.Tr("k"), p)
	verif.Assert(err == nil && leaf != nil && leaf.V == "leaf-k", "the call failed although the resource succeeded")
	verif.Assert(mt.gotParams && len(mt.seen) == 1 && mt.seen[0] == "k", "the call did not reach the resource")
	got := mt.getParams
	verif.Assert(got != nil, "the resource received no parameter object although the caller passed one")
	verif.Assert((got.Opt != nil) == (p.Opt != nil) && (got.Opt == nil || *got.Opt == *p.Opt), "optional string parameter differs")
	verif.Assert((got.Cnt != nil) == (p.Cnt != nil) && (got.Cnt == nil || *got.Cnt == 7), "optional int parameter differs")
	verif.Cover("fidelity")
}
