package zzh

import (
	"strings"

	"MODULE/restlicodec"
	verif "MODULE/zzverif"
	"MODULE/zzvt/vt"
)

// C11: schema validity constraints when encoding and when decoding.

func c11Ptr32(v int32) *int32   { return &v }
func c11PtrS(v string) *string  { return &v }

// Harness_C11_UnionEncode: every subset of members.
func Harness_C11_UnionEncode(format int) {
	u := &vt.Un{}
	n := 0
	if verif.Bool() {
		u.Int = c11Ptr32(1)
		n++
	}
	if verif.Bool() {
		u.String = c11PtrS("s")
		n++
	}
	if verif.Bool() {
		u.Inner = &vt.Inner{S: "i"}
		n++
	}
	var err error
	if format == 0 {
		w := restlicodec.NewCompactJsonWriter()
		err = u.MarshalRestLi(w)
	} else {
		w := restlicodec.NewRor2HeaderWriter()
		err = u.MarshalRestLi(w)
	}
	verr := u.ValidateUnionFields()
	verif.Assert((err != nil) == (n != 1), "union encoding must fail exactly when the number of members set is not one")
	verif.Assert((verr != nil) == (n != 1), "ValidateUnionFields must fail exactly when the number of members set is not one")
	verif.Cover("encoded")
}

// Harness_C11_UnionDecode: documents with a solver-chosen subset of members,
// optionally an unknown member.
func Harness_C11_UnionDecode(format int) {
	var parts []string
	n := 0
	add := func(j, r string) {
		if format == 0 {
			parts = append(parts, j)
		} else {
			parts = append(parts, r)
		}
	}
	if verif.Bool() {
		add(`"int":1`, `int:1`)
		n++
	}
	if verif.Bool() {
		add(`"string":"s"`, `string:s`)
		n++
	}
	if verif.Bool() {
		add(`"vt.Inner":{"s":"i"}`, `vt.Inner:(s:i)`)
		n++
	}
	unknown := verif.Bool()
	if unknown {
		add(`"bogus":1`, `bogus:1`)
	}
	var doc string
	if format == 0 {
		doc = "{" + strings.Join(parts, ",") + "}"
	} else {
		doc = "(" + strings.Join(parts, ",") + ")"
	}
	u := new(vt.Un)
	err := u.UnmarshalRestLi(c13Reader(format, doc))
	set := 0
	if u.Int != nil {
		set++
	}
	if u.String != nil {
		set++
	}
	if u.Inner != nil {
		set++
	}
	if err == nil {
		// whatever is accepted must satisfy the constraint
		verif.Assert(set == 1, "a decoded union does not carry exactly one member: "+doc)
		verif.Cover("accepted")
	}
	if n == 1 && !unknown {
		verif.Assert(err == nil, "a valid union document was rejected: "+doc)
	}
	if n != 1 && !unknown {
		verif.Assert(err != nil, "a union document with "+string(rune('0'+n))+" members was accepted: "+doc)
		verif.Cover("rejected")
	}
}

// Harness_C11_Fixed: bytes of length n (every byte value) through the ROR2
// reader into Fx4: accepted iff n == 4, content preserved; encoding always 4.
func Harness_C11_Fixed(n int) {
	b := verif.Bytes(n)
	w := restlicodec.NewRor2HeaderWriter()
	w.WriteBytes(b)
	enc := w.Finalize()
	r, err := restlicodec.NewRor2Reader(enc)
	verif.Assert(err == nil, "reader rejects encoded bytes")
	var f vt.Fx4
	err = f.UnmarshalRestLi(r)
	verif.Assert((err == nil) == (n == 4), "a fixed(4) must be accepted exactly when the input has 4 bytes")
	if err == nil {
		verif.Assert(string(f[:]) == string(b), "fixed content changed")
		verif.Cover("accepted")
	} else {
		verif.Cover("rejected")
	}
}

// Harness_C11_FixedJson: two symbolic bytes (every value) and two fixed ones through JSON.
func Harness_C11_FixedJson() {
	f := vt.Fx4{verif.Byte(), 'x', verif.Byte(), 0xff}
	w := restlicodec.NewCompactJsonWriter()
	verif.Assert(f.MarshalRestLi(w) == nil, "encoding a fixed failed")
	r, _ := restlicodec.NewJsonReader([]byte(w.Finalize()))
	var g vt.Fx4
	verif.Assert(g.UnmarshalRestLi(r) == nil, "fixed does not decode from its own JSON encoding")
	verif.Assert(g == f, "fixed does not round-trip through JSON")
	verif.Cover("round-trip")
}

// Harness_C11_EnumEncode: any int32 as a Color.
func Harness_C11_EnumEncode() {
	c := vt.Color(verif.Int32())
	w := restlicodec.NewCompactJsonWriter()
	err := c.MarshalRestLi(w)
	valid := c == vt.Color_RED || c == vt.Color_GREEN || c == vt.Color_BLUE
	verif.Assert((err == nil) == valid, "an enum must be written exactly when it is one of its declared symbols")
	if err == nil {
		out := w.Finalize()
		verif.Assert(out == `"RED"` || out == `"GREEN"` || out == `"BLUE"`, "enum written as something other than a symbol name")
		verif.Cover("encoded")
	}
}

// Harness_C11_EnumDecode: a symbolic string of n bytes decodes to symbol k iff
// it equals that symbol's name, otherwise to the unknown value.
func Harness_C11_EnumDecode(n int) {
	s := verif.String(n)
	w := restlicodec.NewRor2HeaderWriter()
	w.WriteString(s)
	r, err := restlicodec.NewRor2Reader(w.Finalize())
	verif.Assert(err == nil, "reader")
	var c vt.Color
	err = c.UnmarshalRestLi(r)
	verif.Assert(err == nil, "decoding an enum string failed")
	switch s {
	case "RED":
		verif.Assert(c == vt.Color_RED, "RED decoded to another value")
	case "GREEN":
		verif.Assert(c == vt.Color_GREEN, "GREEN decoded to another value")
	case "BLUE":
		verif.Assert(c == vt.Color_BLUE, "BLUE decoded to another value")
	default:
		verif.Assert(!c.IsValid(), "an unknown symbol decoded to a declared symbol")
		verif.Cover("unknown")
	}
}

// field operations of a partial update
const (
	opNone = iota
	opDelete
	opSet
	opDeleteAndSet
)

// Harness_C11_PatchEncode: Inner_PartialUpdate with each field given an
// operation; excluded: 0 none, 1 n excluded, 2 s excluded.
func Harness_C11_PatchEncode(excluded int) {
	p := &vt.Inner_PartialUpdate{}
	opN := verif.Choose(4)
	setS := verif.Bool()
	if opN == opDelete || opN == opDeleteAndSet {
		p.Delete_Fields.N = true
	}
	if opN == opSet || opN == opDeleteAndSet {
		p.Set_Fields.N = c11Ptr32(9)
	}
	if setS {
		p.Set_Fields.S = c11PtrS("v")
	}
	var spec restlicodec.PathSpec
	switch excluded {
	case 1:
		spec = restlicodec.NewPathSpec("n")
	case 2:
		spec = restlicodec.NewPathSpec("s")
	}
	w := restlicodec.NewCompactJsonWriterWithExcludedFields(spec)
	err := p.MarshalRestLi(w)
	illegal := opN == opDeleteAndSet || (excluded == 1 && opN != opNone) || (excluded == 2 && setS)
	verif.Assert((err != nil) == illegal, "partial update encoding must fail exactly for set-and-delete of one field or an excluded field")
	if err != nil {
		verif.Cover("rejected")
		return
	}
	out := w.Finalize()
	// protocol shape and round trip
	verif.Assert(strings.HasPrefix(out, `{"patch":{`), "partial update is not wrapped in a patch object: "+out)
	verif.Assert(strings.Contains(out, `"$delete":["n"]`) == (opN == opDelete), "$delete list wrong: "+out)
	verif.Assert(strings.Contains(out, `"$set":{`) == (opN == opSet || setS), "$set object wrong: "+out)
	r, _ := restlicodec.NewJsonReader([]byte(out))
	q := new(vt.Inner_PartialUpdate)
	verif.Assert(q.UnmarshalRestLi(r) == nil, "the encoder's patch does not decode: "+out)
	verif.Assert(q.Delete_Fields.N == p.Delete_Fields.N, "delete flag changed in the round trip")
	verif.Assert((q.Set_Fields.N == nil) == (p.Set_Fields.N == nil) && (q.Set_Fields.S == nil) == (p.Set_Fields.S == nil), "set fields changed in the round trip")
	verif.Cover("round-trip")
}

// Harness_C11_NestedPatch: Item_PartialUpdate with a nested patch on the
// record-typed field sub; excluded: 0 none, 1 sub (whole field), 2 sub/v, 3 name.
func Harness_C11_NestedPatch(excluded int) {
	p := &vt.Item_PartialUpdate{}
	nested := verif.Choose(4) // 0 none, 1 empty nested patch, 2 nested set v, 3 nested delete w
	switch nested {
	case 1:
		p.Sub = &vt.Leaf_PartialUpdate{}
	case 2:
		p.Sub = &vt.Leaf_PartialUpdate{}
		p.Sub.Set_Fields.V = c11PtrS("nv")
	case 3:
		p.Sub = &vt.Leaf_PartialUpdate{}
		p.Sub.Delete_Fields.W = true
	}
	setSub := verif.Bool()
	if setSub {
		p.Set_Fields.Sub = &vt.Leaf{V: "whole"}
	}
	setName := verif.Bool()
	if setName {
		p.Set_Fields.Name = c11PtrS("n")
	}
	var spec restlicodec.PathSpec
	switch excluded {
	case 1:
		spec = restlicodec.NewPathSpec("sub")
	case 2:
		spec = restlicodec.NewPathSpec("sub/v")
	case 3:
		spec = restlicodec.NewPathSpec("name")
	}
	w := restlicodec.NewCompactJsonWriterWithExcludedFields(spec)
	err := p.MarshalRestLi(w)
	out := w.Finalize()
	illegal := (nested != 0 && setSub) || // set and patch of the same field
		(excluded == 1 && (nested != 0 || setSub)) ||
		(excluded == 2 && nested == 2) ||
		(excluded == 3 && setName)
	if illegal {
		verif.Assert(err != nil, "an illegal partial update (set-and-patch of one field, or touching an excluded field) was encoded: "+out)
		verif.Cover("rejected")
		return
	}
	if excluded == 2 && setSub {
		// setting the whole record while one of its fields is excluded: the
		// property does not say; accept either
		return
	}
	verif.Assert(err == nil, "a legal partial update was refused")
	r, _ := restlicodec.NewJsonReader([]byte(out))
	q := new(vt.Item_PartialUpdate)
	verif.Assert(q.UnmarshalRestLi(r) == nil, "the encoder's patch does not decode: "+out)
	verif.Assert((q.Sub != nil) == (nested != 0), "nested patch presence changed: "+out)
	verif.Assert((q.Set_Fields.Sub != nil) == setSub && (q.Set_Fields.Name != nil) == setName, "set fields changed: "+out)
	verif.Cover("round-trip")
}

// Harness_C11_PatchDecode: hand-built patch documents with the illegal combinations.
func Harness_C11_PatchDecode() {
	docs := []string{
		`{"patch":{"$set":{"n":1}}}`,                     // legal
		`{"patch":{"$delete":["n"]}}`,                    // legal
		`{"patch":{"$set":{"s":"v"},"$delete":["n"]}}`,   // legal
		`{"patch":{"$delete":["n","nosuch"]}}`,           // legal: unknown names tolerated
		`{"patch":{"$set":{"n":1},"$delete":["n"]}}`,     // set and delete of one field
		`{"patch":{"$delete":["s"]}}`,                    // delete of a required field
		`{"patch":{}}`,                                   // legal: nothing
	}
	legal := []bool{true, true, true, true, false, false, true}
	k := verif.Choose(len(docs))
	r, _ := restlicodec.NewJsonReader([]byte(docs[k]))
	p := new(vt.Inner_PartialUpdate)
	err := p.UnmarshalRestLi(r)
	verif.Assert((err == nil) == legal[k], "patch document acceptance is wrong for "+docs[k])
	verif.Cover("decoded")
}

// Harness_C11_PatchDecodeIncluded: the same rules for fields a record inherits
// through includes (Alpha includes Mid2 includes Base2; Beta likewise, with an
// optional field of its own): deleting an inherited required field is refused
// at every depth of the include chain, deleting an optional one and setting an
// inherited one are accepted.
func Harness_C11_PatchDecodeIncluded() {
	docs := []string{
		`{"patch":{"$delete":["a1"]}}`,                // own required field
		`{"patch":{"$delete":["m1"]}}`,                // required, inherited from the included record
		`{"patch":{"$delete":["b1"]}}`,                // required, inherited through two includes
		`{"patch":{"$delete":["b2","nosuch"]}}`,       // required, second field of the deepest record
		`{"patch":{"$set":{"b1":"v","m1":"w"}}}`,      // legal: inherited fields can be set
		`{"patch":{"$set":{"b1":"v"},"$delete":["b1"]}}`, // set and delete of an inherited field
		`{"patch":{"$delete":["nosuch"]}}`,            // legal: unknown names tolerated
	}
	legal := []bool{false, false, false, false, true, false, true}
	k := verif.Choose(len(docs))
	r, _ := restlicodec.NewJsonReader([]byte(docs[k]))
	var err error
	if verif.Bool() {
		err = new(vt.Alpha_PartialUpdate).UnmarshalRestLi(r)
	} else {
		err = new(vt.Beta_PartialUpdate).UnmarshalRestLi(r)
		if k == 0 {
			return // a1 is Alpha's own field
		}
	}
	verif.Assert((err == nil) == legal[k], "patch document acceptance is wrong for "+docs[k])
	if verif.Bool() {
		// an optional field inherited through two includes can be deleted, and the
		// decoded patch encodes back to the same document
		doc := `{"patch":{"$delete":["b3"]}}`
		r3, _ := restlicodec.NewJsonReader([]byte(doc))
		pa := new(vt.Alpha_PartialUpdate)
		verif.Assert(pa.UnmarshalRestLi(r3) == nil, "deleting an optional field inherited through two includes was refused")
		w := restlicodec.NewCompactJsonWriter()
		verif.Assert(pa.MarshalRestLi(w) == nil, "re-encoding the decoded patch failed")
		verif.Assert(w.Finalize() == doc, "a delete of a field inherited through two includes was lost: "+w.Finalize())
	}
	if verif.Bool() {
		// Beta's own optional field can be deleted
		r2, _ := restlicodec.NewJsonReader([]byte(`{"patch":{"$delete":["p2"]}}`))
		verif.Assert(new(vt.Beta_PartialUpdate).UnmarshalRestLi(r2) == nil, "deleting an optional field was refused")
	}
	verif.Cover("decoded")
}

func Harness_C11_Twin() {
	c := vt.Color(verif.Int32())
	w := restlicodec.NewCompactJsonWriter()
	verif.Assert(c.MarshalRestLi(w) != nil, "twin: some enum constant is valid")
}
