package zzh

import "MODULE/restlicodec"

func genEncodeQuery(m restlicodec.Marshaler) (string, error) {
	return restlicodec.BuildQueryParams(func(pw func(string) restlicodec.Writer) error { return m.MarshalRestLi(pw("p")) })
}
