package zzh

import (
	"strings"

	"MODULE/restlicodec"
	verif "MODULE/zzverif"
	"MODULE/zzvt/vt"
)

// C13: schema defaults are applied when a field is absent, never override a
// supplied value, are never reported missing, and are not shared.
//
// The documents are assembled textually in the harness (JSON and ROR2) from a
// presence bit per defaulted field; the expected literals below are written
// from the manifest, not taken from generated code.

type c13Field struct {
	name, json, ror2 string
}

// supplied values (different from every default)
var c13Fields = []c13Field{
	{"di", `5`, `5`}, {"dl", `6`, `6`}, {"df", `2.5`, `2.5`}, {"db", `false`, `false`}, {"ds", `"zz"`, `zz`},
	{"dby", `"ab"`, `ab`}, {"de", `"RED"`, `RED`}, {"dfx", `"wxyz"`, `wxyz`}, {"dt", `"tt"`, `tt`},
	{"dr", `{"s":"sup"}`, `(s:sup)`}, {"du", `{"int":3}`, `(int:3)`}, {"dea", `[1]`, `List(1)`}, {"da", `["z"]`, `List(z)`},
	{"dem", `{"k":1}`, `(k:1)`}, {"dmm", `{"j":4}`, `(j:4)`},
	{"dhb", `"\u00fe"`, `%C3%BE`},
	{"dnb", `["y"]`, `List(y)`}, {"dnm", `{"m":"n"}`, `(m:n)`}, {"dna", `[[1]]`, `List(List(1))`},
	// a long default above 2^53 that is not a float64 (2^53+1)
	{"dlp", `8`, `8`},
}

func c13Doc(format int, present []bool, extra string) string {
	var parts []string
	for i, f := range c13Fields {
		if present[i] {
			if format == 0 {
				parts = append(parts, `"`+f.name+`":`+f.json)
			} else {
				parts = append(parts, f.name+":"+f.ror2)
			}
		}
	}
	if format == 0 {
		parts = append(parts, `"req":"r"`)
		if extra != "" {
			parts = append(parts, `"own":"o"`)
		}
		return "{" + strings.Join(parts, ",") + "}"
	}
	parts = append(parts, "req:r")
	if extra != "" {
		parts = append(parts, "own:o")
	}
	return "(" + strings.Join(parts, ",") + ")"
}

func c13Reader(format int, doc string) restlicodec.Reader {
	var r restlicodec.Reader
	var err error
	if format == 0 {
		r, err = restlicodec.NewJsonReader([]byte(doc))
	} else {
		r, err = restlicodec.NewRor2Reader(doc)
	}
	verif.Assert(err == nil, "reader rejects the document")
	return r
}

func c13CheckField(d *vt.Defaults, i int, supplied bool) {
	what := c13Fields[i].name
	if supplied {
		what += " supplied: the document's value must win"
	} else {
		what += " absent: the schema default must be applied"
	}
	ok := false
	switch i {
	case 0:
		ok = d.Di != nil && (supplied && *d.Di == 5 || !supplied && *d.Di == -2147483648)
	case 1:
		ok = d.Dl != nil && (supplied && *d.Dl == 6 || !supplied && *d.Dl == 9223372036854775807)
	case 19:
		ok = d.Dlp != nil && (supplied && *d.Dlp == 8 || !supplied && *d.Dlp == 9007199254740993)
	case 2:
		ok = d.Df != nil && (supplied && *d.Df == 2.5 || !supplied && *d.Df == 1.5)
	case 3:
		ok = d.Db != nil && (supplied && !*d.Db || !supplied && *d.Db)
	case 4:
		ok = d.Ds != nil && (supplied && *d.Ds == "zz" || !supplied && *d.Ds == "a\"b\\c")
	case 5:
		ok = d.Dby != nil && (supplied && string(*d.Dby) == "ab" || !supplied && string(*d.Dby) == "xy")
	case 6:
		ok = d.De != nil && (supplied && *d.De == vt.Color_RED || !supplied && *d.De == vt.Color_GREEN)
	case 7:
		ok = d.Dfx != nil && (supplied && string(d.Dfx[:]) == "wxyz" || !supplied && string(d.Dfx[:]) == "abcd")
	case 8:
		ok = d.Dt != nil && (supplied && string(*d.Dt) == "tt" || !supplied && string(*d.Dt) == "tr")
	case 9:
		ok = d.Dr != nil && (supplied && d.Dr.S == "sup" || !supplied && d.Dr.S == "in")
		// the nested record's own default is applied either way
		ok = ok && d.Dr.N != nil && *d.Dr.N == 7
	case 10:
		ok = d.Du != nil && (supplied && d.Du.Int != nil && *d.Du.Int == 3 && d.Du.String == nil || !supplied && d.Du.String != nil && *d.Du.String == "u" && d.Du.Int == nil)
	case 11:
		ok = d.Dea != nil && (supplied && len(*d.Dea) == 1 && (*d.Dea)[0] == 1 || !supplied && len(*d.Dea) == 0)
	case 12:
		ok = d.Da != nil && (supplied && len(*d.Da) == 1 && (*d.Da)[0] == "z" || !supplied && len(*d.Da) == 2 && (*d.Da)[0] == "p" && (*d.Da)[1] == "q")
	case 13:
		ok = d.Dem != nil && (supplied && len(*d.Dem) == 1 && (*d.Dem)["k"] == 1 || !supplied && len(*d.Dem) == 0)
	case 15:
		// bytes default with bytes >= 0x80 (one code point per byte in the schema literal)
		ok = d.Dhb != nil && (supplied && string(*d.Dhb) == "\xfe" || !supplied && string(*d.Dhb) == "\xff\x80a")
	case 16:
		// defaults whose JSON text contains "[]" / "{}" without being empty
		ok = d.Dnb != nil && (supplied && len(*d.Dnb) == 1 && (*d.Dnb)[0] == "y" || !supplied && len(*d.Dnb) == 2 && (*d.Dnb)[0] == "[ ]" && (*d.Dnb)[1] == "{}")
	case 17:
		ok = d.Dnm != nil && (supplied && len(*d.Dnm) == 1 && (*d.Dnm)["m"] == "n" || !supplied && len(*d.Dnm) == 1 && (*d.Dnm)["k"] == "{}")
	case 18:
		ok = d.Dna != nil && (supplied && len(*d.Dna) == 1 && len((*d.Dna)[0]) == 1 && (*d.Dna)[0][0] == 1 || !supplied && len(*d.Dna) == 1 && len((*d.Dna)[0]) == 0)
	case 14:
		ok = d.Dmm != nil && (supplied && len(*d.Dmm) == 1 && (*d.Dmm)["j"] == 4 || !supplied && len(*d.Dmm) == 1 && (*d.Dmm)["k"] == 3)
	}
	verif.Assert(ok, what)
}

// Harness_C13_Decode: format 0 JSON / 1 ROR2; typ 0 Defaults (declares the
// defaults) / 1 IncDefaults (inherits them through an include); group selects
// which five fields have a symbolic presence bit (the others are absent).
func Harness_C13_Decode(format, typ, group int) {
	present := make([]bool, len(c13Fields))
	for i := group * 5; i < group*5+5 && i < len(present); i++ {
		present[i] = verif.Bool()
	}
	extra := ""
	if typ == 1 {
		extra = "own"
	}
	doc := c13Doc(format, present, extra)
	var d *vt.Defaults
	var err error
	if typ == 0 {
		v := new(vt.Defaults)
		err = v.UnmarshalRestLi(c13Reader(format, doc))
		d = v
	} else {
		v := new(vt.IncDefaults)
		err = v.UnmarshalRestLi(c13Reader(format, doc))
		d = &v.Defaults
		verif.Assert(err != nil || v.Own == "o", "own field lost")
	}
	verif.Assert(err == nil, "decoding a document that omits defaulted fields failed (defaults must never be reported missing): "+doc)
	verif.Assert(d.Req == "r", "required field lost")
	for i := range c13Fields {
		c13CheckField(d, i, present[i])
	}
	verif.Cover("decoded")
}

// Harness_C13_Constructor: the default instance carries every default.
func Harness_C13_Constructor() {
	d := vt.NewDefaultsWithDefaultValues()
	for i := range c13Fields {
		c13CheckField(d, i, false)
	}
	in := vt.NewInnerWithDefaultValues()
	verif.Assert(in.N != nil && *in.N == 7, "Inner default")
	o := vt.NewOuterWithDefaultValues()
	verif.Assert(o.Dm != nil && len(*o.Dm) == 0, "Outer map default")
	verif.Assert(o.Inner.N != nil && *o.Inner.N == 7, "a default declared by an included record is missing from the default instance")
	verif.Cover("constructed")
}

// Harness_C13_NoSharing: default arrays and maps are not shared between instances.
func Harness_C13_NoSharing(format int) {
	doc := c13Doc(format, make([]bool, len(c13Fields)), "")
	a, b := new(vt.Defaults), new(vt.Defaults)
	verif.Assert(a.UnmarshalRestLi(c13Reader(format, doc)) == nil, "decode")
	verif.Assert(b.UnmarshalRestLi(c13Reader(format, doc)) == nil, "decode")
	(*a.Da)[0] = "changed"
	(*a.Dmm)["k"] = 99
	(*a.Dby)[0] = 'Z'
	a.Dr.S = "changed"
	verif.Assert((*b.Da)[0] == "p", "default array shared between instances")
	verif.Assert((*b.Dmm)["k"] == 3, "default map shared between instances")
	verif.Assert((*b.Dby)[0] == 'x', "default bytes shared between instances")
	verif.Assert(b.Dr.S == "in", "default record shared between instances")
	c := vt.NewDefaultsWithDefaultValues()
	verif.Assert((*c.Da)[0] == "p" && (*c.Dmm)["k"] == 3, "default instance affected by another instance")
	verif.Cover("unshared")
}

// Harness_C13_IncludeChain: Top3 includes Mid3 includes Base3, Plain3 likewise;
// only Base3 declares defaults (Top3 adds one of its own, Plain3 none, Mid3
// none). Every level of the chain gets Base3's defaults when the document
// omits them, keeps supplied values, and the default instances carry them.
func Harness_C13_IncludeChain(format int) {
	hasBd := verif.Bool()
	var doc string
	switch {
	case format == 0 && hasBd:
		doc = `{"bd":9}`
	case format == 0:
		doc = `{}`
	case hasBd:
		doc = `(bd:9)`
	default:
		doc = `()`
	}
	wantBd := int32(5)
	if hasBd {
		wantBd = 9
	}
	// The inherited fields are reached through promoted selectors (v.Bd): the
	// two generators lay the embedded records out differently.
	check := func(bd *int32, bs *[]string, who string) {
		verif.Assert(bd != nil && *bd == wantBd, who+": int default declared two includes away is missing or overrode a supplied value")
		verif.Assert(bs != nil && len(*bs) == 1 && (*bs)[0] == "x", who+": array default declared two includes away is missing")
	}
	switch verif.Choose(4) {
	case 0:
		v := new(vt.Base3)
		verif.Assert(v.UnmarshalRestLi(c13Reader(format, doc)) == nil, "decode Base3")
		check(v.Bd, v.Bs, "Base3")
	case 1:
		v := new(vt.Mid3)
		verif.Assert(v.UnmarshalRestLi(c13Reader(format, doc)) == nil, "decode Mid3")
		check(v.Bd, v.Bs, "Mid3")
	case 2:
		v := new(vt.Top3)
		verif.Assert(v.UnmarshalRestLi(c13Reader(format, doc)) == nil, "decode Top3")
		check(v.Bd, v.Bs, "Top3")
		verif.Assert(v.Own != nil && *v.Own == "o", "Top3: own default missing")
	default:
		v := new(vt.Plain3)
		verif.Assert(v.UnmarshalRestLi(c13Reader(format, doc)) == nil, "decode Plain3")
		check(v.Bd, v.Bs, "Plain3")
	}
	if !hasBd {
		t := vt.NewTop3WithDefaultValues()
		check(t.Bd, t.Bs, "NewTop3WithDefaultValues")
		// (only constructors of records with a default of their own are used:
		// whether the others exist is the generator's choice, and a harness
		// that does not compile decides nothing)
	}
	verif.Cover("decoded")
}

// Harness_C13_RecordDefault: a record-typed field whose default literal is an
// object (empty or not) gets a fresh instance that carries the nested
// record's own defaults, in decoding and in the default instance.
func Harness_C13_RecordDefault(format int) {
	doc := `{}`
	if format == 1 {
		doc = `()`
	}
	var h *vt.Hold3
	if verif.Bool() {
		h = new(vt.Hold3)
		verif.Assert(h.UnmarshalRestLi(c13Reader(format, doc)) == nil, "decode Hold3")
	} else {
		h = vt.NewHold3WithDefaultValues()
	}
	for _, b := range []*vt.Base3{h.Hb, h.Hs} {
		verif.Assert(b != nil, "record default {} not applied")
		verif.Assert(b.Bd != nil && *b.Bd == 5, "a record defaulted to {} lacks its own int default")
		verif.Assert(b.Bs != nil && len(*b.Bs) == 1 && (*b.Bs)[0] == "x", "a record defaulted to {} lacks its own array default")
	}
	verif.Assert(h.Hi != nil && h.Hi.S == "x", "record default {\"s\":\"x\"} not applied")
	verif.Assert(h.Hi.N != nil && *h.Hi.N == 7, "a record defaulted to a non-empty object lacks its own defaults")
	verif.Assert(h.Hb != h.Hs, "default records shared")
	verif.Cover("decoded")
}

// Harness_C13_NoSharingNested: default instances do not share the defaults of
// a nested record reached through a required record-typed field: mutating one
// instance leaves every other instance, and instances built later, with the
// schema literal.
func Harness_C13_NoSharingNested() {
	a, b := vt.NewWrap3WithDefaultValues(), vt.NewWrap3WithDefaultValues()
	verif.Assert(a.B3.Bd != nil && *a.B3.Bd == 5 && a.B3.Bs != nil && len(*a.B3.Bs) == 1, "nested defaults missing in the default instance")
	switch verif.Choose(3) {
	case 0:
		(*a.B3.Bs)[0] = "changed"
	case 1:
		*a.B3.Bs = append(*a.B3.Bs, "more")
	case 2:
		*a.B3.Bd = 99
	}
	c := vt.NewWrap3WithDefaultValues()
	for _, w := range []*vt.Wrap3{b, c} {
		verif.Assert(w.B3.Bd != nil && *w.B3.Bd == 5, "a nested int default is shared between default instances")
		verif.Assert(w.B3.Bs != nil && len(*w.B3.Bs) == 1 && (*w.B3.Bs)[0] == "x", "a nested array default is shared between default instances")
	}
	verif.Assert(a.Own != nil && *a.Own == "w", "own default missing")
	verif.Cover("unshared")
}

func Harness_C13_Twin(format int) {
	present := make([]bool, len(c13Fields))
	present[0] = verif.Bool()
	d := new(vt.Defaults)
	_ = d.UnmarshalRestLi(c13Reader(format, c13Doc(format, present, "")))
	verif.Assert(d.Di != nil && *d.Di == 5, "twin: di is sometimes the default")
}
