package zzh

import (
	"math"
	"unicode/utf8"

	"MODULE/restlicodec"
	verif "MODULE/zzverif"
	"MODULE/zzvt/vt"
)

// C01 (generated types) and C10 (generated Equals / ComputeHash).

const (
	gfJSON = iota
	gfPretty
	gfHeader
	gfPath
	gfQuery
)

func genEncode(format int, m restlicodec.Marshaler) (string, error) {
	switch format {
	case gfJSON:
		w := restlicodec.NewCompactJsonWriter()
		err := m.MarshalRestLi(w)
		return w.Finalize(), err
	case gfPretty:
		w := restlicodec.NewPrettyJsonWriter()
		err := m.MarshalRestLi(w)
		return w.Finalize(), err
	case gfHeader:
		w := restlicodec.NewRor2HeaderWriter()
		err := m.MarshalRestLi(w)
		return w.Finalize(), err
	case gfPath:
		w := restlicodec.NewRor2PathWriter()
		err := m.MarshalRestLi(w)
		return w.Finalize(), err
	default:
		return genEncodeQuery(m) // module-specific (c01gen_v2.go / harness/root/zzh/c01gen_root.go)
	}
}

func genReader(format int, enc string) restlicodec.Reader {
	switch format {
	case gfJSON, gfPretty:
		r, err := restlicodec.NewJsonReader([]byte(enc))
		verif.Assert(err == nil, "reader rejects the encoder's output")
		return r
	case gfHeader, gfPath:
		r, err := restlicodec.NewRor2Reader(enc)
		verif.Assert(err == nil, "reader rejects the encoder's output")
		return r
	default:
		params, err := restlicodec.ParseQueryParams(enc)
		verif.Assert(err == nil, "query reader rejects the encoder's output")
		verif.Assert(params["p"] != nil, "query parameter lost")
		return params["p"]
	}
}

func genString(format, n int) string {
	s := verif.String(n)
	if format <= gfPretty {
		verif.Assume(utf8.ValidString(s))
	}
	return s
}

func genInt32() int32 {
	x := verif.Int32()
	verif.Assume(x >= -99)
	verif.Assume(x <= 99)
	return x
}

func genInner(format, n int) *vt.Inner {
	in := &vt.Inner{S: genString(format, n)}
	if verif.Bool() {
		v := genInt32()
		in.N = &v
	}
	return in
}

func genLeaf(format, n int) *vt.Leaf {
	l := &vt.Leaf{V: genString(format, n)}
	if verif.Bool() {
		v := int32(-5)
		l.W = &v
	}
	return l
}

var genFloats = []float64{0, math.Copysign(0, -1), 1.5, 1e21, 1e-7, 123456789.125, math.MaxFloat64, math.SmallestNonzeroFloat64, math.Inf(1), math.Inf(-1), math.NaN()}

// Harness_C01G_Inner: record with a required string and a defaulted int.
func Harness_C01G_Inner(format, n int) {
	in := genInner(format, n)
	enc, err := genEncode(format, in)
	verif.Assert(err == nil, "encoding failed")
	out := new(vt.Inner)
	verif.Assert(out.UnmarshalRestLi(genReader(format, enc)) == nil, "decoding the encoder's output failed: "+enc)
	want := *in
	if want.N == nil {
		d := int32(7) // the schema default is filled in by decoding
		want.N = &d
	}
	verif.Assert(out.Equals(&want), "round trip changed the value")
	verif.Assert(out.S == in.S, "string field changed")
	verif.Cover("round-trip")
}

// Harness_C01G_Union: each member.
func Harness_C01G_Union(format, n int) {
	u := &vt.Un{}
	switch verif.Choose(3) {
	case 0:
		v := genInt32()
		u.Int = &v
	case 1:
		s := genString(format, n)
		u.String = &s
	case 2:
		u.Inner = genInner(format, n)
		if u.Inner.N == nil {
			d := int32(7)
			u.Inner.N = &d
		}
	}
	enc, err := genEncode(format, u)
	verif.Assert(err == nil, "encoding failed")
	out := new(vt.Un)
	verif.Assert(out.UnmarshalRestLi(genReader(format, enc)) == nil, "decoding the encoder's output failed: "+enc)
	verif.Assert(out.Equals(u), "round trip changed the union")
	verif.Cover("round-trip")
}

// Harness_C01G_Mid: map of records with a symbolic key, nested in a record.
func Harness_C01G_Mid(format, n int) {
	m := &vt.Mid{T: "t", Ml: map[string]*vt.Leaf{}}
	nk := verif.Choose(3)
	for i := 0; i < nk; i++ {
		k := genString(format, n)
		_, dup := m.Ml[k]
		verif.Assume(!dup)
		m.Ml[k] = genLeaf(format, 0)
	}
	enc, err := genEncode(format, m)
	verif.Assert(err == nil, "encoding failed")
	out := new(vt.Mid)
	verif.Assert(out.UnmarshalRestLi(genReader(format, enc)) == nil, "decoding the encoder's output failed: "+enc)
	verif.Assert(out.Equals(m), "round trip changed the value")
	verif.Assert(len(out.Ml) == nk, "map entries lost or merged")
	verif.Cover("round-trip")
}

// Harness_C01G_Deep: record -> array -> record -> map -> record.
func Harness_C01G_Deep(format, n int) {
	d := &vt.Deep{Top: genString(format, n)}
	ne := verif.Choose(3)
	for i := 0; i < ne; i++ {
		d.Am = append(d.Am, &vt.Mid{T: "t", Ml: map[string]*vt.Leaf{"k": genLeaf(format, 0)}})
	}
	if verif.Bool() {
		d.Ol = genLeaf(format, n)
	}
	enc, err := genEncode(format, d)
	verif.Assert(err == nil, "encoding failed")
	out := new(vt.Deep)
	verif.Assert(out.UnmarshalRestLi(genReader(format, enc)) == nil, "decoding the encoder's output failed: "+enc)
	verif.Assert(out.Equals(d), "round trip changed the value")
	verif.Cover("round-trip")
}

// Harness_C01G_Prims: one record with every primitive, required and optional.
// n < 0: numeric leaves vary (strings fixed); n >= 0: string and bytes of n
// symbolic bytes (numeric leaves fixed).
func Harness_C01G_Prims(format, n int) {
	var p *vt.Prims
	fi := 2
	if n < 0 {
		i32 := []int32{0, -1, 7, math.MinInt32, math.MaxInt32, -99, 1000}[verif.Choose(7)]
		p = &vt.Prims{I32: i32, I64: int64(i32)*1000003 - 5, B: verif.Bool(), S: "s", By: []byte{0xfe}}
		fi = verif.Choose(len(genFloats))
	} else {
		p = &vt.Prims{I32: -42, I64: math.MinInt64, B: true}
		if verif.Bool() {
			p.S = genString(format, n)
			p.By = []byte("b")
		} else {
			p.S = "s"
			p.By = verif.Bytes(n)
		}
	}
	p.F64 = genFloats[fi]
	p.F32 = float32(genFloats[(fi+3)%len(genFloats)])
	if verif.Bool() {
		v := int32(math.MinInt32)
		p.Oi32 = &v
		l := int64(math.MaxInt64)
		p.Oi64 = &l
		b := false
		p.Ob = &b
	}
	if verif.Bool() {
		e := ""
		p.Os = &e
		by := []byte{}
		p.Oby = &by
		f := -1e-7
		p.Of64 = &f
	}
	enc, err := genEncode(format, p)
	verif.Assert(err == nil, "encoding failed")
	out := new(vt.Prims)
	verif.Assert(out.UnmarshalRestLi(genReader(format, enc)) == nil, "decoding the encoder's output failed: "+enc)
	verif.Assert(out.I32 == p.I32 && out.I64 == p.I64 && out.B == p.B && out.S == p.S, "required scalar changed")
	verif.Assert(string(out.By) == string(p.By), "bytes changed")
	verif.Assert(math.Float64bits(out.F64) == math.Float64bits(p.F64) || (p.F64 != p.F64 && out.F64 != out.F64), "float64 changed")
	verif.Assert(math.Float32bits(out.F32) == math.Float32bits(p.F32) || (p.F32 != p.F32 && out.F32 != out.F32), "float32 changed")
	verif.Assert((out.Oi32 == nil) == (p.Oi32 == nil) && (out.Os == nil) == (p.Os == nil) && (out.Of64 == nil) == (p.Of64 == nil), "optional presence changed")
	if p.Oi32 != nil {
		verif.Assert(*out.Oi32 == *p.Oi32 && *out.Oi64 == *p.Oi64 && *out.Ob == *p.Ob, "optional scalar changed")
	}
	if p.Os != nil {
		verif.Assert(*out.Os == "" && out.Oby != nil && len(*out.Oby) == 0 && *out.Of64 == *p.Of64, "optional empty string / bytes / float changed")
	}
	if p.F64 == p.F64 && p.F32 == p.F32 {
		verif.Assert(out.Equals(p), "Equals does not hold after the round trip")
	}
	verif.Cover("round-trip")
}

// Harness_C01G_Outer: includes, enum, fixed, typeref, union, arrays, maps.
func Harness_C01G_Outer(format, n int) {
	which := verif.Choose(3) // which leaf is symbolic
	sel := func(k int, fixed string) string {
		if which == k {
			return genString(format, n)
		}
		return fixed
	}
	o := &vt.Outer{Name: sel(0, "nm"), Color: vt.Color(1 + verif.Choose(3)), M: map[string]string{}}
	o.Inner = vt.Inner{S: "", N: c11Ptr32(-3)}
	o.Arr = []*vt.Inner{}
	if verif.Bool() {
		fx := vt.Fx4{'a', 'b', 0, 0xff}
		if which == 2 {
			fx[0] = verif.Byte()
		}
		o.Fx = &fx
		tr := vt.Tr(sel(1, "tr"))
		o.Tr = &tr
		o.Arr = append(o.Arr, &vt.Inner{S: "a", N: c11Ptr32(1)})
		o.M["k"] = ""
	}
	if verif.Bool() {
		s := "x"
		o.Un = &vt.Un{String: &s}
		aa := [][]int32{{1, 2}, {}}
		o.Aa = &aa
		mi := map[string]*vt.Inner{"i": {S: "s", N: c11Ptr32(2)}}
		o.Mi = &mi
		oc := vt.Color_BLUE
		o.Ocolor = &oc
	}
	dm := map[string]int32{}
	enc, err := genEncode(format, o)
	verif.Assert(err == nil, "encoding failed")
	out := new(vt.Outer)
	verif.Assert(out.UnmarshalRestLi(genReader(format, enc)) == nil, "decoding the encoder's output failed: "+enc)
	want := *o
	want.Dm = &dm // defaulted map filled by decoding
	verif.Assert(out.Equals(&want), "round trip changed the value: "+enc)
	verif.Cover("round-trip")
}

// Harness_C01G_Key: bare typeref / complex key through the path and header flavours.
func Harness_C01G_Key(format, n int) {
	ck := &vt.Ck{Inner: vt.Inner{S: genString(format, n), N: c11Ptr32(7)}}
	if verif.Bool() {
		ck.Params = &vt.KParams{X: c11Ptr32(3)}
	}
	enc, err := genEncode(format, ck)
	verif.Assert(err == nil, "encoding failed")
	out := new(vt.Ck)
	verif.Assert(out.UnmarshalRestLi(genReader(format, enc)) == nil, "decoding the encoder's output failed: "+enc)
	verif.Assert(out.Equals(ck), "round trip changed the complex key")
	verif.Cover("round-trip")
}

func Harness_C01G_Twin(n int) {
	in := genInner(gfHeader, n)
	enc, _ := genEncode(gfHeader, in)
	verif.Assert(len(enc) < 10, "twin: some encoding is longer than 9 bytes")
}

// ---------------------------------------------------------------------------
// C10 over generated types

func c10Inner(n int) *vt.Inner {
	if verif.Bool() {
		return nil
	}
	return genInner(gfHeader, n)
}

// Harness_C10G_Inner: relational axioms on a record with an optional field.
func Harness_C10G_Inner(n int) {
	x, y, z := c10Inner(n), c10Inner(n), c10Inner(n)
	xy, yx := x.Equals(y), y.Equals(x)
	verif.Assert(xy == yx, "Equals is not symmetric")
	verif.Assert(x.Equals(x), "Equals is not reflexive")
	if xy && y.Equals(z) {
		verif.Assert(x.Equals(z), "Equals is not transitive")
		verif.Cover("transitive")
	}
	if xy {
		verif.Assert(x.ComputeHash().Equals(y.ComputeHash()), "equal values hash differently")
		verif.Cover("equal")
	}
	// reference equality
	same := (x == nil) == (y == nil)
	if same && x != nil {
		same = x.S == y.S && (x.N == nil) == (y.N == nil) && (x.N == nil || *x.N == *y.N)
	}
	verif.Assert(xy == same, "Equals disagrees with field-wise comparison (a differing field or presence not distinguished)")
}

// Harness_C10G_Union: members, presence.
func Harness_C10G_Union() {
	mk := func() *vt.Un {
		u := &vt.Un{}
		switch verif.Choose(4) {
		case 0:
			v := genInt32()
			u.Int = &v
		case 1:
			s := verif.String(1)
			u.String = &s
		case 2:
			u.Inner = genInner(gfHeader, 1)
		}
		return u
	}
	x, y := mk(), mk()
	xy := x.Equals(y)
	verif.Assert(xy == y.Equals(x), "Equals is not symmetric")
	verif.Assert(x.Equals(x), "Equals is not reflexive")
	if xy {
		verif.Assert(x.ComputeHash().Equals(y.ComputeHash()), "equal unions hash differently")
		verif.Cover("equal")
	}
	same := (x.Int == nil) == (y.Int == nil) && (x.String == nil) == (y.String == nil) && (x.Inner == nil) == (y.Inner == nil)
	if same && x.Int != nil {
		same = *x.Int == *y.Int
	}
	if same && x.String != nil {
		same = *x.String == *y.String
	}
	if same && x.Inner != nil {
		same = x.Inner.Equals(y.Inner)
	}
	verif.Assert(xy == same, "union Equals does not distinguish member or content")
}

// Harness_C10G_Mid: map-typed field: insertion order and nil versus empty.
func Harness_C10G_Mid() {
	verif.MapOrder(true)
	mk := func() *vt.Mid {
		m := &vt.Mid{T: "t"}
		if verif.Bool() {
			m.Ml = map[string]*vt.Leaf{}
		}
		nk := verif.Choose(3)
		for i := 0; i < nk; i++ {
			if m.Ml == nil {
				m.Ml = map[string]*vt.Leaf{}
			}
			k := verif.String(1)
			_, dup := m.Ml[k]
			verif.Assume(!dup)
			m.Ml[k] = &vt.Leaf{V: "v"}
		}
		return m
	}
	x, y := mk(), mk()
	xy := x.Equals(y)
	verif.Assert(xy == y.Equals(x), "Equals is not symmetric")
	verif.Assert(x.Equals(x), "Equals is not reflexive")
	h1, h2 := x.ComputeHash(), x.ComputeHash()
	verif.Assert(h1.Equals(h2), "hash depends on map iteration order")
	if xy {
		verif.Assert(x.ComputeHash().Equals(y.ComputeHash()), "equal values hash differently")
		verif.Cover("equal")
	}
	same := len(x.Ml) == len(y.Ml)
	if same {
		for k := range x.Ml {
			if _, ok := y.Ml[k]; !ok {
				same = false
			}
		}
	}
	verif.Assert(xy == same, "Equals on a map field disagrees with key-set comparison (nil and empty must be equal)")
}

// Harness_C10G_Key: complex keys compare on the key part only for key
// equality, on everything for Equals.
func Harness_C10G_Key() {
	mk := func() *vt.Ck {
		ck := &vt.Ck{Inner: vt.Inner{S: verif.String(1)}}
		if verif.Bool() {
			ck.Params = &vt.KParams{X: c11Ptr32(int32(verif.Choose(2)))}
		}
		return ck
	}
	x, y := mk(), mk()
	ke := x.ComplexKeyEquals(y)
	verif.Assert(ke == (x.S == y.S), "complex key equality must look at the key part only")
	if ke {
		verif.Assert(x.ComputeComplexKeyHash().Equals(y.ComputeComplexKeyHash()), "keys equal up to params hash differently")
		verif.Cover("key-equal")
	}
	if x.Equals(y) {
		verif.Assert(x.ComputeHash().Equals(y.ComputeHash()), "equal values hash differently")
	}
	// enum and fixed
	c1, c2 := vt.Color(verif.Int32()), vt.Color(verif.Int32())
	if c1.Equals(c2) {
		verif.Assert(c1.ComputeHash().Equals(c2.ComputeHash()), "equal enums hash differently")
	}
	f1, f2 := vt.Fx4{verif.Byte(), 1, 2, 3}, vt.Fx4{verif.Byte(), 1, 2, 3}
	verif.Assert(f1.Equals(&f2) == (f1[0] == f2[0]), "fixed Equals")
	if f1.Equals(&f2) {
		verif.Assert(f1.ComputeHash().Equals(f2.ComputeHash()), "equal fixed values hash differently")
	}
}
