package zzh

import (
	"bytes"
	"errors"
	"io"
	"net/http"
	"net/url"

	"MODULE/restli"
	"MODULE/restlicodec"
	"MODULE/restlidata/generated/com/linkedin/restli/common"
	verif "MODULE/zzverif"
	"MODULE/zzvt/vt"
	"MODULE/zzvt/vtr/info"
	"MODULE/zzvt/vtr/parts"
	"MODULE/zzvt/vtr/things"
)

// recorder is the http.ResponseWriter the handler writes into.
type recorder struct {
	header http.Header
	status int
	body   bytes.Buffer
	wrote  bool
}

func newRecorder() *recorder { return &recorder{header: http.Header{}} }

func (r *recorder) Header() http.Header { return r.header }
func (r *recorder) WriteHeader(s int) {
	if !r.wrote {
		r.status = s
		r.wrote = true
	}
}
func (r *recorder) Write(b []byte) (int, error) {
	if !r.wrote {
		r.WriteHeader(http.StatusOK)
	}
	return r.body.Write(b)
}

// mock records which resource method ran and with which arguments.
type call struct {
	resource string
	method   string
	key      string
	key2     int64
	item     *vt.Item
	patch    *vt.Item_PartialUpdate
	keys     []string
	items    map[string]*vt.Item
	list     []*vt.Item
	q        string
	msg      string
}

type mockThings struct {
	calls      []call
	outcome    func(method string) error
	outcomeCtx func(ctx *restli.RequestContext, method string) error
	item       *vt.Item
	batch      *things.BatchEntities
	batchResp  *things.BatchResponse
	nilResult  bool // finders / get_all / batch_get return a nil result pointer with a nil error
	elements   *things.Elements
	createdID  string
	pong       string
	ctx        *restli.RequestContext
}

func (m *mockThings) rec(c call) error {
	c.resource = "things"
	m.calls = append(m.calls, c)
	if m.outcomeCtx != nil {
		return m.outcomeCtx(m.ctx, c.method)
	}
	if m.outcome != nil {
		return m.outcome(c.method)
	}
	return nil
}

func (m *mockThings) Get(ctx *restli.RequestContext, thingId string) (*vt.Item, error) {
	m.ctx = ctx
	err := m.rec(call{method: "get", key: thingId})
	return m.item, err
}
func (m *mockThings) Create(ctx *restli.RequestContext, entity *vt.Item) (*things.CreatedEntity, error) {
	m.ctx = ctx
	err := m.rec(call{method: "create", item: entity})
	if err != nil {
		return nil, err
	}
	id := "new"
	if m.createdID != "" {
		id = m.createdID
	}
	return &things.CreatedEntity{Id: id}, nil
}
func (m *mockThings) Update(ctx *restli.RequestContext, thingId string, entity *vt.Item) error {
	m.ctx = ctx
	return m.rec(call{method: "update", key: thingId, item: entity})
}
func (m *mockThings) PartialUpdate(ctx *restli.RequestContext, thingId string, entity *vt.Item_PartialUpdate) error {
	m.ctx = ctx
	return m.rec(call{method: "partial_update", key: thingId, patch: entity})
}
func (m *mockThings) Delete(ctx *restli.RequestContext, thingId string) error {
	m.ctx = ctx
	return m.rec(call{method: "delete", key: thingId})
}
func (m *mockThings) GetAll(ctx *restli.RequestContext) (*things.Elements, error) {
	m.ctx = ctx
	err := m.rec(call{method: "get_all"})
	if m.nilResult {
		return nil, err
	}
	return &things.Elements{}, err
}
func (m *mockThings) BatchGet(ctx *restli.RequestContext, keys []string) (*things.BatchEntities, error) {
	m.ctx = ctx
	err := m.rec(call{method: "batch_get", keys: keys})
	if m.nilResult {
		return nil, err
	}
	if m.batch != nil {
		return m.batch, err
	}
	return &things.BatchEntities{Results: map[string]*vt.Item{}}, err
}
func (m *mockThings) BatchCreate(ctx *restli.RequestContext, entities []*vt.Item) ([]*things.CreatedEntity, error) {
	m.ctx = ctx
	err := m.rec(call{method: "batch_create", list: entities})
	return nil, err
}
func (m *mockThings) BatchUpdate(ctx *restli.RequestContext, entities map[string]*vt.Item) (*things.BatchResponse, error) {
	m.ctx = ctx
	err := m.rec(call{method: "batch_update", items: entities})
	return &things.BatchResponse{Results: map[string]*common.BatchEntityUpdateResponse{}}, err
}
func (m *mockThings) BatchPartialUpdate(ctx *restli.RequestContext, entities map[string]*vt.Item_PartialUpdate) (*things.BatchResponse, error) {
	m.ctx = ctx
	err := m.rec(call{method: "batch_partial_update", keys: c02SortedKeys(entities)})
	return &things.BatchResponse{Results: map[string]*common.BatchEntityUpdateResponse{}}, err
}
func (m *mockThings) BatchDelete(ctx *restli.RequestContext, keys []string) (*things.BatchResponse, error) {
	m.ctx = ctx
	err := m.rec(call{method: "batch_delete", keys: keys})
	if m.batchResp != nil {
		return m.batchResp, err
	}
	return &things.BatchResponse{Results: map[string]*common.BatchEntityUpdateResponse{}}, err
}
func (m *mockThings) FindBySearch(ctx *restli.RequestContext, p *things.FindBySearchParams) (*things.Elements, error) {
	m.ctx = ctx
	err := m.rec(call{method: "finder:search", q: p.Kw})
	if m.nilResult {
		return nil, err
	}
	if m.elements != nil {
		return m.elements, err
	}
	return &things.Elements{}, err
}
func (m *mockThings) FindByWithMeta(ctx *restli.RequestContext, p *things.FindByWithMetaParams) (*things.FindByWithMetaElements, error) {
	m.ctx = ctx
	err := m.rec(call{method: "finder:withMeta", key2: int64(p.C)})
	if m.nilResult {
		return nil, err
	}
	return &things.FindByWithMetaElements{Elements: []*vt.Item{{Name: "m"}}, Metadata: &vt.Meta{Total: 41}}, err
}
func (m *mockThings) FindByCrit(ctx *restli.RequestContext, p *things.FindByCritParams) (*things.Elements, error) {
	m.ctx = ctx
	err := m.rec(call{method: "finder:crit", q: p.Crit.V})
	return &things.Elements{}, err
}
func (m *mockThings) PingAction(ctx *restli.RequestContext, p *things.PingActionParams) (string, error) {
	m.ctx = ctx
	err := m.rec(call{method: "action:ping", msg: p.Msg})
	if m.pong != "" {
		return m.pong, err
	}
	return "pong", err
}
func (m *mockThings) TouchAction(ctx *restli.RequestContext, thingId string) error {
	m.ctx = ctx
	return m.rec(call{method: "action:touch", key: thingId})
}

type mockParts struct{ t *mockThings }

func (m *mockParts) Get(ctx *restli.RequestContext, thingId string, partId int64) (*vt.Leaf, error) {
	m.t.calls = append(m.t.calls, call{resource: "parts", method: "get", key: thingId, key2: partId})
	return &vt.Leaf{V: "leaf"}, nil
}
func (m *mockParts) Create(ctx *restli.RequestContext, thingId string, entity *vt.Leaf) (*parts.CreatedAndReturnedEntity, error) {
	m.t.calls = append(m.t.calls, call{resource: "parts", method: "create", key: thingId, msg: entity.V})
	return &parts.CreatedAndReturnedEntity{CreatedEntity: common.CreatedEntity[int64]{Id: 5}, Entity: entity}, nil
}

type mockInfo struct{ t *mockThings }

func (m *mockInfo) Get(ctx *restli.RequestContext, thingId string) (*vt.Inner, error) {
	m.t.calls = append(m.t.calls, call{resource: "info", method: "get", key: thingId})
	return &vt.Inner{S: "i"}, nil
}
func (m *mockInfo) Update(ctx *restli.RequestContext, thingId string, entity *vt.Inner) error {
	m.t.calls = append(m.t.calls, call{resource: "info", method: "update", key: thingId, msg: entity.S})
	return nil
}
func (m *mockInfo) Delete(ctx *restli.RequestContext, thingId string) error {
	m.t.calls = append(m.t.calls, call{resource: "info", method: "delete", key: thingId})
	return nil
}
func (m *mockInfo) ResetAction(ctx *restli.RequestContext, thingId string, p *info.ResetActionParams) (int32, error) {
	c := call{resource: "info", method: "action:reset", key: thingId}
	if p.Hard != nil {
		c.key2 = 1
		if *p.Hard {
			c.key2 = 2
		}
	}
	m.t.calls = append(m.t.calls, c)
	return 1 + int32(c.key2), nil
}

func newServer(m *mockThings, filters ...restli.Filter) http.Handler {
	s := restli.NewServer(filters...)
	things.RegisterResource(s, m)
	parts.RegisterResource(s, &mockParts{m})
	info.RegisterResource(s, &mockInfo{m})
	return s.Handler()
}

// serve builds the request the way net/http would hand it to the handler
// (request target parsed with url.ParseRequestURI) and runs ServeHTTP.
func serve(h http.Handler, verb, target string, headers map[string]string, body []byte) (*recorder, bool) {
	u, err := url.ParseRequestURI(target)
	if err != nil {
		return nil, false // net/http itself answers 400 to such a request line
	}
	req := &http.Request{Method: verb, URL: u, RequestURI: target, Header: http.Header{}, Body: io.NopCloser(bytes.NewReader(body))}
	for k, v := range headers {
		req.Header.Set(k, v)
	}
	rec := newRecorder()
	h.ServeHTTP(rec, req)
	return rec, true
}

var errPlain = errors.New("plain failure")

func Harness_ServerSmoke(n int) {
	m := &mockThings{item: &vt.Item{Name: "x"}}
	h := newServer(m)
	key := verif.String(n)
	_ = key
	rec, ok := serve(h, "GET", "/things/abc", map[string]string{restli.MethodHeader: "get"}, nil)
	verif.Assert(ok, "request line")
	verif.Assert(rec.status == 200, "status "+http.StatusText(rec.status)+" "+rec.body.String())
	verif.Assert(len(m.calls) == 1 && m.calls[0].method == "get" && m.calls[0].key == "abc", "routed")
	verif.Cover("served")
}

func c05register(s restli.Server, m *mockThings) {
	things.RegisterResource(s, m)
}

func registerAll(s restli.Server, m *mockThings) {
	things.RegisterResource(s, m)
	parts.RegisterResource(s, &mockParts{m})
	info.RegisterResource(s, &mockInfo{m})
}

func c06DecodeCrit(query string) (*things.FindByCritParams, error) {
	return restlicodec.UnmarshalQueryParamsDecoder[*things.FindByCritParams](query)
}

func c06DecodeSearch(query string) (*things.FindBySearchParams, error) {
	return restlicodec.UnmarshalQueryParamsDecoder[*things.FindBySearchParams](query)
}
