package zzh

import (
	"sort"
	"strings"

	"MODULE/restlicodec"
	verif "MODULE/zzverif"
)

// Harness_C06_QueryParams: required query parameters of a finder.
func Harness_C06_QueryParams() {
	hasKw, hasLim, hasExtra := verif.Bool(), verif.Bool(), verif.Bool()
	var qs []string
	if hasExtra {
		qs = append(qs, "zz=(a:1)")
	}
	if hasLim {
		qs = append(qs, "lim=3")
	}
	if hasKw {
		qs = append(qs, "kw=word")
	}
	qs = append(qs, "q=search")
	p, err := c06DecodeSearch(strings.Join(qs, "&"))
	if !hasKw {
		mf, ok := err.(*restlicodec.MissingRequiredFieldsError)
		verif.Assert(ok && len(mf.Fields) == 1 && mf.Fields[0] == "kw", "missing required query parameter not reported")
	} else if !hasExtra {
		verif.Assert(err == nil, "complete query rejected")
		verif.Assert(p.Kw == "word", "query parameter lost")
	}
	if hasLim && p != nil {
		verif.Assert(p.Lim != nil && *p.Lim == 3, "optional query parameter lost")
	}
	verif.Cover("decoded")
}


// Harness_C06_QueryRecordParams: query parameters whose values are records
// (crit: Leaf required, other: Leaf optional) next to a plain required one
// (lim2): every missing required field - of the parameters themselves and
// inside the record values - is reported in one error, by full path, and the
// parameters that are present are still decoded.
func Harness_C06_QueryRecordParams() {
	hasCrit, critV := verif.Bool(), verif.Bool()
	hasOther, otherV := verif.Bool(), verif.Bool()
	hasLim := verif.Bool()
	qs := []string{"q=crit"}
	var want []string
	if hasCrit {
		if critV {
			qs = append(qs, "crit=(v:x)")
		} else {
			qs = append(qs, "crit=()")
			want = append(want, "crit.v")
		}
	} else {
		want = append(want, "crit")
	}
	if hasOther {
		if otherV {
			qs = append(qs, "other=(v:y)")
		} else {
			qs = append(qs, "other=(w:1)")
			want = append(want, "other.v")
		}
	}
	if hasLim {
		qs = append(qs, "lim2=4")
	} else {
		want = append(want, "lim2")
	}
	p, err := c06DecodeCrit(strings.Join(qs, "&"))
	if len(want) == 0 {
		verif.Assert(err == nil && p != nil && p.Crit.V == "x" && p.Lim2 == 4, "a complete query was rejected or decoded wrongly")
		verif.Cover("complete")
		return
	}
	mf, ok := err.(*restlicodec.MissingRequiredFieldsError)
	verif.Assert(ok, "missing required query parameters / fields not reported as one MissingRequiredFieldsError")
	got := append([]string(nil), mf.Fields...)
	sort.Strings(got)
	sort.Strings(want)
	verif.Assert(strings.Join(got, " ") == strings.Join(want, " "), "missing set is ["+strings.Join(got, " ")+"] want ["+strings.Join(want, " ")+"] for "+strings.Join(qs, "&"))
	verif.Cover("missing-reported")
}
