package zzh

import (
	"strings"

	"MODULE/restlicodec"
	verif "MODULE/zzverif"
)

// Harness_C06_QueryParams: required query parameters of a finder.
func Harness_C06_QueryParams() {
	hasKw, hasLim, hasExtra := verif.Bool(), verif.Bool(), verif.Bool()
	var qs []string
	if hasExtra {
		qs = append(qs, "zz=(a:1)")
	}
	if hasLim {
		qs = append(qs, "lim=3")
	}
	if hasKw {
		qs = append(qs, "kw=word")
	}
	qs = append(qs, "q=search")
	p, err := c06DecodeSearch(strings.Join(qs, "&"))
	if !hasKw {
		mf, ok := err.(*restlicodec.MissingRequiredFieldsError)
		verif.Assert(ok && len(mf.Fields) == 1 && mf.Fields[0] == "kw", "missing required query parameter not reported")
	} else if !hasExtra {
		verif.Assert(err == nil, "complete query rejected")
		verif.Assert(p.Kw == "word", "query parameter lost")
	}
	if hasLim && p != nil {
		verif.Assert(p.Lim != nil && *p.Lim == 3, "optional query parameter lost")
	}
	verif.Cover("decoded")
}

