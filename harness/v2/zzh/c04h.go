package zzh

import (
	"strings"

	"MODULE/restli"
	verif "MODULE/zzverif"
	"MODULE/zzvt/vt"
)

// C04 at HTTP level: a malformed request is answered with a 4xx, never with a
// 5xx, a recovered panic or a stack trace, and resource code only runs for
// requests that decode.

func c04hCheck(m *mockThings, rec *recorder, what string) {
	verif.Assert(rec.status < 500, what+": answered with a 5xx: "+rec.body.String())
	verif.Assert(!strings.Contains(rec.body.String(), "stackTrace"), what+": response carries a stack trace (recovered panic)")
	if len(m.calls) == 0 {
		verif.Assert(rec.status >= 400, what+": no resource method ran but the status is not a failure")
		verif.Cover("rejected")
	} else {
		verif.Cover("accepted")
	}
}

// Harness_C04H_Path: entity segment (and what follows) of n symbolic bytes.
func Harness_C04H_Path(shape, n int) {
	m := &mockThings{item: &vt.Item{Name: "x"}}
	h := newServer(m)
	seg := verif.String(n)
	target := "/things/" + seg
	switch shape {
	case 1:
		target = "/things/" + seg + "/parts/7"
	case 2:
		target = "/things/k/parts/" + seg
	case 3:
		target = "/things/" + seg + "/info"
	}
	headers := map[string]string{}
	if verif.Bool() {
		headers[restli.MethodHeader] = "get"
	}
	var rec *recorder
	var ok bool
	p, msg := verif.Try(func() { rec, ok = serve(h, "GET", target, headers, nil) })
	verif.Assert(!p, "handler panicked: "+msg)
	if !ok {
		return // net/http rejects the request line itself with a 400
	}
	verif.Cover("served")
	c04hCheck(m, rec, "GET "+target)
}

// Harness_C04H_Query: raw query of n symbolic bytes on the collection.
func Harness_C04H_Query(n int) {
	m := &mockThings{item: &vt.Item{Name: "x"}}
	h := newServer(m)
	q := verif.String(n)
	target := "/things?" + q
	verb := []string{"GET", "DELETE", "PUT"}[verif.Choose(3)]
	var rec *recorder
	var ok bool
	p, msg := verif.Try(func() { rec, ok = serve(h, verb, target, nil, nil) })
	verif.Assert(!p, "handler panicked: "+msg)
	if !ok {
		return
	}
	verif.Cover("served")
	c04hCheck(m, rec, verb+" "+target)
}

// Harness_C04H_Body: request body of n symbolic bytes for the body-taking methods.
func Harness_C04H_Body(kind, n int) {
	m := &mockThings{item: &vt.Item{Name: "x"}}
	h := newServer(m)
	body := verif.Bytes(n)
	reqs := [][3]string{
		{"PUT", "/things/k", "update"},
		{"POST", "/things", "create"},
		{"POST", "/things/k", "partial_update"},
		{"POST", "/things?action=ping", "action"},
		{"PUT", "/things?ids=List(a)", "batch_update"},
		{"POST", "/things", "batch_create"},
	}
	r := reqs[kind]
	var rec *recorder
	p, msg := verif.Try(func() { rec, _ = serve(h, r[0], r[1], map[string]string{restli.MethodHeader: r[2]}, body) })
	verif.Assert(!p, "handler panicked: "+msg)
	verif.Cover("served")
	c04hCheck(m, rec, r[0]+" "+r[1]+" with a malformed body")
}

// Harness_C04H_Tunnel: tunnelled request whose body (the query) is n symbolic bytes.
func Harness_C04H_Tunnel(n int) {
	m := &mockThings{item: &vt.Item{Name: "x"}}
	h := newServer(m)
	body := verif.Bytes(n)
	var rec *recorder
	p, msg := verif.Try(func() {
		rec, _ = serve(h, "POST", "/things", map[string]string{"X-HTTP-Method-Override": "GET", "Content-Type": "application/x-www-form-urlencoded"}, body)
	})
	verif.Assert(!p, "handler panicked: "+msg)
	verif.Cover("served")
	c04hCheck(m, rec, "tunnelled GET /things")
}

func Harness_C04H_Twin(n int) {
	m := &mockThings{item: &vt.Item{Name: "x"}}
	h := newServer(m)
	rec, ok := serve(h, "GET", "/things/"+verif.String(n), nil, nil)
	verif.Assert(!ok || rec.status != 200, "twin: some key is served")
}
