package zzh

import (
	"bytes"
	"io"
	"net/http"
	"net/url"
	"sort"
	"unicode/utf8"

	"MODULE/restli"
	common "MODULE/restlidata/generated/com/linkedin/restli/common"
	verif "MODULE/zzverif"
	"MODULE/zzvt/vt"
	"MODULE/zzvt/vtr/info"
	"MODULE/zzvt/vtr/parts"
	"MODULE/zzvt/vtr/things"
)

// C02: a call through the generated client reaches the corresponding method
// of the registered resource with equal arguments, and what the resource
// returns is what the call returns. The transport is a stated stub: the
// server handler receives the request line the client's URL prints, parsed
// the way net/http parses it (url.ParseRequestURI), and the client's headers
// and body verbatim.

type loopback struct {
	h           http.Handler
	requests    int
	lastURI     string
	lastHeaders http.Header
}

func (l *loopback) RoundTrip(req *http.Request) (*http.Response, error) {
	l.requests++
	target := req.URL.RequestURI()
	l.lastURI = target
	l.lastHeaders = req.Header
	var body []byte
	if req.Body != nil {
		body, _ = io.ReadAll(req.Body)
		req.Body.Close()
	}
	rec := newRecorder()
	u, err := url.ParseRequestURI(target)
	if err != nil {
		rec.WriteHeader(http.StatusBadRequest) // what net/http answers to a malformed request line
	} else {
		sreq := &http.Request{Method: req.Method, URL: u, RequestURI: target, Header: http.Header{}, Body: io.NopCloser(bytes.NewReader(body))}
		for k, v := range req.Header {
			sreq.Header[k] = append([]string(nil), v...)
		}
		l.h.ServeHTTP(rec, sreq)
	}
	return &http.Response{StatusCode: rec.status, Status: http.StatusText(rec.status), Header: rec.header,
		Body: io.NopCloser(bytes.NewReader(rec.body.Bytes())), Request: req}, nil
}

func c02Client(m *mockThings, threshold int) (*restli.Client, *loopback) {
	lb := &loopback{h: newServer(m)}
	base := "http://h"
	if verif.Bool() {
		base = "http://h/ctx" // resolver base with a context path
	}
	u, _ := url.Parse(base)
	return &restli.Client{
		Client:                        &http.Client{Transport: lb},
		HostnameResolver:              &restli.SimpleHostnameResolver{Hostname: u},
		StrictResponseDeserialization: verif.Bool(),
		QueryTunnellingThreshold:      threshold,
	}, lb
}

// with a context path the server is mounted under it
func c02Server(m *mockThings, ctxPath string) http.Handler {
	s := restli.NewPrefixedServer(ctxPath)
	registerAll(s, m)
	return s.Handler()
}

var c02Thresholds = []int{0, 1, 1 << 20}

func c02Setup(m *mockThings) (things.Client, parts.Client, *loopback) {
	threshold := c02Thresholds[verif.Choose(len(c02Thresholds))]
	withCtx := verif.Bool()
	base, prefix := "http://h", "/"
	if withCtx {
		base, prefix = "http://h/ctx", "/ctx"
	}
	lb := &loopback{h: c02Server(m, prefix)}
	u, _ := url.Parse(base)
	c := &restli.Client{
		Client:                        &http.Client{Transport: lb},
		HostnameResolver:              &restli.SimpleHostnameResolver{Hostname: u},
		StrictResponseDeserialization: verif.Bool(),
		QueryTunnellingThreshold:      threshold,
	}
	return things.NewClient(c), parts.NewClient(c), lb
}

func c02Key(n int) string {
	k := verif.String(n)
	verif.Assume(len(k) > 0)
	return k
}

// Harness_C02_Get: entity key of n symbolic bytes (every byte value).
func Harness_C02_Get(n int) {
	name := "nm"
	m := &mockThings{item: &vt.Item{Name: name, Note: restli.StringPointer("x")}}
	tc, _, lb := c02Setup(m)
	key := c02Key(n)
	got, err := tc.Get(key)
	verif.Cover("called")
	verif.Assert(lb.requests == 1, "not exactly one request")
	verif.Assert(len(m.calls) == 1, "call did not reach exactly one resource method: key "+key+" uri "+lb.lastURI)
	verif.Assert(m.calls[0].method == "get", "reached the wrong method")
	verif.Assert(m.calls[0].key == key, "the key seen by the resource differs from the key passed")
	verif.Assert(err == nil, "client call failed although the resource succeeded")
	verif.Assert(got != nil && got.Equals(m.item), "returned entity differs from what the resource returned")
	verif.Cover("fidelity")
}

// Harness_C02_Delete: same for delete (no body either way).
func Harness_C02_Delete(n int) {
	m := &mockThings{}
	tc, _, _ := c02Setup(m)
	key := c02Key(n)
	err := tc.Delete(key)
	verif.Assert(len(m.calls) == 1 && m.calls[0].method == "delete", "delete did not reach the delete method")
	verif.Assert(m.calls[0].key == key, "the key seen by the resource differs from the key passed")
	verif.Assert(err == nil, "client call failed")
	verif.Cover("fidelity")
}

// Harness_C02_Update: key and entity content symbolic.
func Harness_C02_Update(n int) {
	m := &mockThings{}
	tc, _, _ := c02Setup(m)
	key := c02Key(n)
	name := verif.String(n)
	verif.Assume(utf8.ValidString(name))
	ent := &vt.Item{Name: name, Tags: &[]string{"t"}}
	err := tc.Update(key, ent)
	verif.Assert(len(m.calls) == 1 && m.calls[0].method == "update", "update did not reach the update method")
	verif.Assert(m.calls[0].key == key, "the key seen by the resource differs from the key passed")
	verif.Assert(m.calls[0].item != nil && m.calls[0].item.Equals(ent), "the entity seen by the resource differs from the entity passed")
	verif.Assert(err == nil, "client call failed")
	verif.Cover("fidelity")
}

// Harness_C02_Create: created id travels back in the id header.
func Harness_C02_Create(n int) {
	m := &mockThings{}
	id := c02Key(n)
	m.createdID = id
	tc, _, _ := c02Setup(m)
	ent := &vt.Item{Name: "n", Note: restli.StringPointer("create-only")}
	created, err := tc.Create(ent)
	verif.Assert(len(m.calls) == 1 && m.calls[0].method == "create", "create did not reach the create method")
	verif.Assert(m.calls[0].item != nil && m.calls[0].item.Equals(ent), "the entity seen by the resource differs")
	verif.Assert(err == nil, "client call failed")
	verif.Assert(created != nil && created.Id == id, "created id differs from what the resource returned")
	verif.Cover("fidelity")
}

// Harness_C02_Finder: finder parameter symbolic, paging context fixed.
func Harness_C02_Finder(n int) {
	m := &mockThings{elements: &things.Elements{Elements: []*vt.Item{{Name: "a"}, {Name: "b"}}}}
	tc, _, _ := c02Setup(m)
	q := verif.String(n)
	lim := int32(3)
	res, err := tc.FindBySearch(&things.FindBySearchParams{Kw: q, Lim: &lim})
	verif.Assert(len(m.calls) == 1 && m.calls[0].method == "finder:search", "finder did not reach the finder method")
	verif.Assert(m.calls[0].q == q, "finder parameter seen by the resource differs")
	verif.Assert(err == nil, "client call failed")
	verif.Assert(res != nil && len(res.Elements) == 2 && res.Elements[0].Name == "a" && res.Elements[1].Name == "b", "elements differ")
	verif.Cover("fidelity")
}

// Harness_C02_Action: action parameter and result symbolic.
func Harness_C02_Action(n int) {
	m := &mockThings{}
	tc, _, _ := c02Setup(m)
	msg := verif.String(n)
	verif.Assume(utf8.ValidString(msg))
	m.pong = msg + "!"
	res, err := tc.PingAction(&things.PingActionParams{Msg: msg})
	verif.Assert(len(m.calls) == 1 && m.calls[0].method == "action:ping", "action did not reach the action method")
	verif.Assert(m.calls[0].msg == msg, "action parameter seen by the resource differs")
	verif.Assert(err == nil, "client call failed")
	verif.Assert(res == m.pong, "action result differs")
	verif.Cover("fidelity")
}

// Harness_C02_BatchGet: two keys, results filed under the caller's keys.
func Harness_C02_BatchGet(n int) {
	k1, k2 := c02Key(n), c02Key(n)
	verif.Assume(k1 != k2)
	verif.Assume(utf8.ValidString(k1) && utf8.ValidString(k2))
	m := &mockThings{}
	m.batch = &things.BatchEntities{Results: map[string]*vt.Item{k1: {Name: "one"}, k2: {Name: "two"}}}
	tc, _, _ := c02Setup(m)
	res, err := tc.BatchGet([]string{k1, k2})
	verif.Assert(len(m.calls) == 1 && m.calls[0].method == "batch_get", "batch get did not reach the batch get method")
	seen := m.calls[0].keys
	verif.Assert(len(seen) == 2 && (seen[0] == k1 && seen[1] == k2 || seen[0] == k2 && seen[1] == k1), "keys seen by the resource differ from the keys passed")
	verif.Assert(err == nil, "client call failed")
	verif.Assert(res != nil && len(res.Results) == 2 && res.Results[k1] != nil && res.Results[k1].Name == "one" && res.Results[k2] != nil && res.Results[k2].Name == "two", "batch results not filed under the caller's keys")
	verif.Cover("fidelity")
}

// Harness_C02_BatchOutcomes: every mix of per-key outcomes of a batch call
// (result / error / status only / nothing) comes back to the caller as the
// resource returned it, including batches in which no key has a result.
// op 0: batch_get, op 1: batch_delete.
func Harness_C02_BatchOutcomes(op int) {
	keys := []string{"a", "b"}
	var outcome [2]int
	for i := range outcome {
		outcome[i] = verif.Choose(4)
	}
	allocEmpty := verif.Bool() // empty maps allocated or left nil by the resource
	m := &mockThings{}
	ge := &things.BatchEntities{}
	de := &things.BatchResponse{}
	if allocEmpty {
		ge.Results, ge.Errors, ge.Statuses = map[string]*vt.Item{}, map[string]*common.ErrorResponse{}, map[string]int{}
		de.Results, de.Errors, de.Statuses = map[string]*common.BatchEntityUpdateResponse{}, map[string]*common.ErrorResponse{}, map[string]int{}
	}
	status, msg := int32(404), "gone"
	for i, k := range keys {
		switch outcome[i] {
		case 0:
			ge.AddResult(k, &vt.Item{Name: "item-" + k})
			de.AddResult(k, &common.BatchEntityUpdateResponse{Status: 204})
		case 1:
			ge.AddError(k, &common.ErrorResponse{Status: &status, Message: &msg})
			de.AddError(k, &common.ErrorResponse{Status: &status, Message: &msg})
		case 2:
			ge.AddStatus(k, 204)
			de.AddStatus(k, 204)
		}
	}
	m.batch, m.batchResp = ge, de
	tc, _, _ := c02Setup(m)
	var nres, nerr, nstat int
	var err error
	okContent := true
	if op == 0 {
		var res *things.BatchEntities
		res, err = tc.BatchGet(keys)
		if err == nil && res != nil {
			nres, nerr, nstat = len(res.Results), len(res.Errors), len(res.Statuses)
			for i, k := range keys {
				switch outcome[i] {
				case 0:
					okContent = okContent && res.Results[k] != nil && res.Results[k].Name == "item-"+k
				case 1:
					e := res.Errors[k]
					okContent = okContent && e != nil && e.Status != nil && *e.Status == 404 && e.Message != nil && *e.Message == "gone"
				case 2:
					okContent = okContent && res.Statuses[k] == 204
				}
			}
		}
	} else {
		var res *things.BatchResponse
		res, err = tc.BatchDelete(keys)
		if err == nil && res != nil {
			nres, nerr, nstat = len(res.Results), len(res.Errors), len(res.Statuses)
			for i, k := range keys {
				switch outcome[i] {
				case 0:
					okContent = okContent && res.Results[k] != nil && res.Results[k].Status == 204
				case 1:
					e := res.Errors[k]
					okContent = okContent && e != nil && e.Status != nil && *e.Status == 404 && e.Message != nil && *e.Message == "gone"
				case 2:
					okContent = okContent && res.Statuses[k] == 204
				}
			}
		}
	}
	verif.Assert(len(m.calls) == 1, "batch call did not reach the resource exactly once")
	verif.Assert(err == nil, "the resource answered the batch call but the client call failed")
	var wres, werr, wstat int
	for _, o := range outcome {
		switch o {
		case 0:
			wres++
		case 1:
			werr++
		case 2:
			wstat++
		}
	}
	verif.Assert(nres == wres && nerr == werr && nstat == wstat, "per-key outcomes of the batch call were lost or invented")
	verif.Assert(okContent, "per-key outcome of the batch call differs from what the resource returned")
	verif.Cover("fidelity")
}

func c02SortedKeys(m map[string]*vt.Item_PartialUpdate) []string {
	var ks []string
	for k := range m {
		ks = append(ks, k)
	}
	sort.Strings(ks)
	return ks
}

// Harness_C02_More: the remaining method kinds and resource shapes, one call
// each, with a symbolic key of n bytes where the method has one:
// 0 partial_update, 1 batch_update, 2 batch_partial_update, 3 batch_delete,
// 4 get_all, 5 finder with metadata (enum parameter), 6 action on an entity,
// 7 simple sub-resource get, 8 its update, 9 its delete, 10 its action with an
// optional parameter, 11 create with returned entity on a sub-resource.
func Harness_C02_More(kind, n int) {
	m := &mockThings{item: &vt.Item{Name: "x"}}
	threshold := c02Thresholds[verif.Choose(len(c02Thresholds))]
	lb := &loopback{h: c02Server(m, "/")}
	u, _ := url.Parse("http://h")
	c := &restli.Client{Client: &http.Client{Transport: lb}, HostnameResolver: &restli.SimpleHostnameResolver{Hostname: u},
		StrictResponseDeserialization: verif.Bool(), QueryTunnellingThreshold: threshold}
	tc, pc, ic := things.NewClient(c), parts.NewClient(c), info.NewClient(c)
	key := c02Key(n)
	one := func(resource, method string) call {
		verif.Assert(len(m.calls) == 1, "the call did not reach exactly one resource method")
		got := m.calls[0]
		verif.Assert(got.resource == resource && got.method == method, "the call reached "+got.resource+"."+got.method+" instead of "+resource+"."+method)
		return got
	}
	switch kind {
	case 0:
		nm := "new"
		p := &vt.Item_PartialUpdate{}
		p.Set_Fields.Name = &nm
		p.Delete_Fields.Tags = true
		err := tc.PartialUpdate(key, p)
		got := one("things", "partial_update")
		verif.Assert(err == nil && got.key == key, "key differs")
		verif.Assert(got.patch != nil && got.patch.Set_Fields.Name != nil && *got.patch.Set_Fields.Name == "new" && got.patch.Delete_Fields.Tags && !got.patch.Delete_Fields.Note, "patch seen by the resource differs")
	case 1:
		verif.Assume(utf8.ValidString(key) && key != "zz")
		_, err := tc.BatchUpdate(map[string]*vt.Item{key: {Name: "a"}, "zz": {Name: "b"}})
		got := one("things", "batch_update")
		verif.Assert(err == nil && len(got.items) == 2 && got.items[key] != nil && got.items[key].Name == "a" && got.items["zz"] != nil && got.items["zz"].Name == "b", "entities seen by the resource differ")
	case 2:
		verif.Assume(utf8.ValidString(key) && key != "zz")
		nm := "n"
		p := &vt.Item_PartialUpdate{}
		p.Set_Fields.Name = &nm
		_, err := tc.BatchPartialUpdate(map[string]*vt.Item_PartialUpdate{key: p, "zz": p})
		got := one("things", "batch_partial_update")
		want := []string{key, "zz"}
		sort.Strings(want)
		verif.Assert(err == nil && len(got.keys) == 2 && got.keys[0] == want[0] && got.keys[1] == want[1], "keys seen by the resource differ")
	case 3:
		verif.Assume(utf8.ValidString(key) && key != "zz")
		_, err := tc.BatchDelete([]string{key, "zz"})
		got := one("things", "batch_delete")
		verif.Assert(err == nil && len(got.keys) == 2 && ((got.keys[0] == key && got.keys[1] == "zz") || (got.keys[1] == key && got.keys[0] == "zz")), "keys seen by the resource differ")
	case 4:
		res, err := tc.GetAll()
		one("things", "get_all")
		verif.Assert(err == nil && res != nil, "get_all failed")
	case 5:
		col := []vt.Color{vt.Color_RED, vt.Color_GREEN, vt.Color_BLUE}[verif.Choose(3)]
		res, err := tc.FindByWithMeta(&things.FindByWithMetaParams{C: col})
		got := one("things", "finder:withMeta")
		verif.Assert(got.key2 == int64(col), "enum parameter seen by the resource differs")
		verif.Assert(err == nil && res != nil && len(res.Elements) == 1 && res.Elements[0].Name == "m", "elements differ")
		verif.Assert(res.Metadata != nil && res.Metadata.Total == 41, "finder metadata lost")
	case 6:
		err := tc.TouchAction(key)
		got := one("things", "action:touch")
		verif.Assert(err == nil && got.key == key, "key of the entity-level action differs")
	case 7:
		in, err := ic.Get(key)
		got := one("info", "get")
		verif.Assert(err == nil && got.key == key && in != nil && in.S == "i", "simple sub-resource get differs")
	case 8:
		err := ic.Update(key, &vt.Inner{S: "upd"})
		got := one("info", "update")
		verif.Assert(err == nil && got.key == key && got.msg == "upd", "simple sub-resource update differs")
	case 9:
		err := ic.Delete(key)
		got := one("info", "delete")
		verif.Assert(err == nil && got.key == key, "simple sub-resource delete differs")
	case 10:
		var hard *bool
		want := int64(0)
		if verif.Bool() {
			h := verif.Bool()
			hard = &h
			want = 1
			if h {
				want = 2
			}
		}
		res, err := ic.ResetAction(key, &info.ResetActionParams{Hard: hard})
		got := one("info", "action:reset")
		verif.Assert(err == nil && got.key == key && got.key2 == want, "optional action parameter seen by the resource differs")
		verif.Assert(res == 1+int32(want), "action result differs")
	default:
		created, err := pc.Create(key, &vt.Leaf{V: "lv"})
		got := one("parts", "create")
		verif.Assert(err == nil && got.key == key && got.msg == "lv", "sub-resource create differs")
		verif.Assert(created != nil && created.Id == 5 && created.Entity != nil && created.Entity.V == "lv", "created id or returned entity differs")
	}
	verif.Cover("fidelity")
}

// Harness_C02_SubGet: sub-resource under a parent key, int64 key.
func Harness_C02_SubGet(n int) {
	m := &mockThings{}
	_, pc, _ := c02Setup(m)
	parent := c02Key(n)
	id := verif.Int64()
	verif.Assume(id >= -999 && id <= 999)
	leaf, err := pc.Get(parent, id)
	verif.Assert(len(m.calls) == 1 && m.calls[0].resource == "parts" && m.calls[0].method == "get", "sub-resource get did not reach its method")
	verif.Assert(m.calls[0].key == parent, "parent key seen by the resource differs")
	verif.Assert(m.calls[0].key2 == id, "key seen by the resource differs")
	verif.Assert(err == nil && leaf != nil && leaf.V == "leaf", "returned entity differs")
	verif.Cover("fidelity")
}

func Harness_C02_Twin(n int) {
	m := &mockThings{item: &vt.Item{Name: "x"}}
	tc, _, lb := c02Setup(m)
	key := c02Key(n)
	_, _ = tc.Get(key)
	verif.Assert(lb.lastURI == "/things/"+key || lb.lastURI == "/ctx/things/"+key, "twin: some key is percent-encoded on the wire")
}
