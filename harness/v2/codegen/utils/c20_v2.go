package utils

const c20Manifest = ManifestFile
