package restlicodec

import (
	"MODULE/fnv1a"
	verif "MODULE/zzverif"
)

// C17, custom-typeref registry: registrations and look-ups from several
// goroutines are race-free and each goroutine gets the adapter of its own
// type. (custom_typerefs.go is compiled against zzsync.)

type c17A struct{ s string }
type c17B struct{ s string }
type c17C struct{ s string }

func c17Register[T any](mk func(string) T, get func(T) string) {
	RegisterCustomTyperef[string, T](
		func(t T) (string, error) { return get(t), nil },
		func(s string) (T, error) { return mk(s), nil },
		func(t T) fnv1a.Hash { return fnv1a.HashString(get(t)) },
		func(a, b T) bool { return get(a) == get(b) },
	)
}

func c17RoundTrip[T any](v T, get func(T) string, want string) bool {
	w := NewCompactJsonWriter()
	if err := CustomTyperefMarshaler[T]()(v, w); err != nil {
		return false
	}
	text := w.Finalize()
	if text != `"`+want+`"` {
		verif.ObserveString("text", text)
		return false
	}
	r, err := NewJsonReader([]byte(text))
	if err != nil {
		return false
	}
	back, err := CustomTyperefUnmarshaler[T]()(r)
	if err != nil || get(back) != want {
		return false
	}
	return CustomTyperefEquals[T]()(v, back) && CustomTyperefHasher[T]()(v).Equals(CustomTyperefHasher[T]()(back))
}

func Harness_C17_Typerefs(bound int) {
	getA := func(a c17A) string { return a.s }
	getB := func(b c17B) string { return b.s }
	getC := func(c c17C) string { return c.s }
	// the registry is process-wide and the native replay runs many tapes in one process: start empty
	customTyperefAdapters.Range(func(k, v any) bool { customTyperefAdapters.Delete(k); return true })
	c17Register(func(s string) c17C { return c17C{s} }, getC) // before any goroutine starts
	var ok [3]bool
	verif.RaceDetect(true)
	verif.Go(func() {
		c17Register(func(s string) c17A { return c17A{s} }, getA)
		ok[0] = c17RoundTrip(c17A{"a-val"}, getA, "a-val")
	})
	verif.Go(func() {
		c17Register(func(s string) c17B { return c17B{s} }, getB)
		ok[1] = c17RoundTrip(c17B{"b-val"}, getB, "b-val")
	})
	verif.Go(func() {
		ok[2] = c17RoundTrip(c17C{"c-val"}, getC, "c-val")
	})
	verif.RunThreads(bound)
	verif.RaceDetect(false)
	verif.Assert(ok[0] && ok[1] && ok[2], "a goroutine did not get the adapter of its own type back")
	verif.Cover("registered")
}
