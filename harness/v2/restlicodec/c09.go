package restlicodec

import (
	verif "MODULE/zzverif"
)

// C09: the same abstract value serialises to the same bytes whatever the
// iteration order of Go maps and the order in which parameters are supplied;
// keys come out in ascending byte order.

func c09Map(n, klen int) map[string]string {
	m := map[string]string{}
	vals := []string{"x", "", "y z"}
	for i := 0; i < n; i++ {
		k := verif.String(klen)
		_, dup := m[k]
		verif.Assume(!dup)
		m[k] = vals[i%len(vals)]
	}
	return m
}

func c09Encode(format int, m map[string]string) string {
	enc, err := c01Encode(format, func(w Writer) error { return WriteMap(w, m, WriteString) })
	verif.Assert(err == nil, "encoding a map failed")
	return enc
}

// Harness_C09_WriteMap: n entries, symbolic keys of klen bytes (valid UTF-8 in
// the JSON formats), encoded twice under independently chosen iteration orders.
func Harness_C09_WriteMap(format, n, klen int) {
	m := c09Map(n, klen)
	if format <= fmtPrettyJSON {
		for k := range m {
			verif.Assume(c09ValidUTF8(k))
		}
	}
	verif.MapOrder(true)
	a := c09Encode(format, m)
	b := c09Encode(format, m)
	verif.MapOrder(false)
	verif.Assert(a == b, "map encoding depends on iteration order")
	// keys ascending: read back in document order
	var keys []string
	r, err := c01Reader(format, a)
	verif.Assert(err == nil, "reader rejects map encoding")
	err = r.ReadMap(func(r Reader, k string) error {
		keys = append(keys, k)
		_, e := r.ReadString()
		return e
	})
	verif.Assert(err == nil, "map encoding does not decode")
	verif.Assert(len(keys) == n, "entries lost or duplicated")
	for i := 1; i < len(keys); i++ {
		verif.Assert(keys[i-1] < keys[i], "keys are not in ascending byte order")
	}
	verif.Cover("encoded")
}

func c09ValidUTF8(s string) bool {
	for _, r := range s {
		if r == 0xFFFD {
			return false
		}
	}
	return true
}

// Harness_C09_QueryParams: three parameters supplied in a solver-chosen order.
func Harness_C09_QueryParams() {
	names := []string{"a", "b", "ab"}
	// permutation by choices
	order := []int{0, 1, 2}
	i := verif.Choose(3)
	order[0], order[i] = order[i], order[0]
	j := 1 + verif.Choose(2)
	order[1], order[j] = order[j], order[1]
	val := verif.String(1)
	build := func(ord []int) string {
		s, err := BuildQueryParams(func(pw func(string) Writer) error {
			for _, k := range ord {
				pw(names[k]).WriteString(val)
			}
			return nil
		})
		verif.Assert(err == nil, "BuildQueryParams failed")
		return s
	}
	got := build(order)
	want := build([]int{0, 2, 1}) // a, ab, b: ascending
	verif.Assert(got == want, "query string depends on the order parameters were supplied in")
	verif.Cover("encoded")
}

// Harness_C09_Nested: an object whose three keys are supplied in a
// solver-chosen order and whose values are a solver-chosen mix of primitives,
// empty nested maps and non-empty nested maps (themselves supplied out of
// order). The output must equal the output for ascending supply order.
func Harness_C09_Nested(format int) {
	keys := []string{"a", "b", "c"}
	kinds := []int{verif.Choose(3), verif.Choose(3), verif.Choose(3)}
	order := []int{0, 1, 2}
	i := verif.Choose(3)
	order[0], order[i] = order[i], order[0]
	if verif.Bool() {
		order[1], order[2] = order[2], order[1]
	}
	write := func(ord []int) string {
		enc, err := c01Encode(format, func(w Writer) error {
			return w.WriteMap(func(kw func(string) Writer) error {
				for _, k := range ord {
					vw := kw(keys[k])
					switch kinds[k] {
					case 0:
						vw.WriteString("x")
					case 1:
						if err := vw.WriteMap(func(func(string) Writer) error { return nil }); err != nil {
							return err
						}
					case 2:
						if err := vw.WriteMap(func(kw2 func(string) Writer) error {
							kw2("z").WriteInt32(1)
							kw2("y").WriteInt32(2)
							return nil
						}); err != nil {
							return err
						}
					}
				}
				return nil
			})
		})
		verif.Assert(err == nil, "encoding failed")
		return enc
	}
	got := write(order)
	want := write([]int{0, 1, 2})
	verif.Assert(got == want, "output depends on the order keys were supplied in: "+got+" vs "+want)
	verif.Cover("encoded")
}

func Harness_C09_Twin(n int) {
	m := c09Map(n, 1)
	a := c09Encode(fmtHeader, m)
	verif.Assert(len(a) < 8, "twin: some map encodes to 8 bytes or more")
}

type c09Boom struct{}

func (c09Boom) Error() string { return "boom" }

// c09Record writes a small record with a nested map and an array.
func c09Record(s string) func(Writer) error {
	return func(w Writer) error {
		return w.WriteMap(func(kw func(string) Writer) error {
			kw("id").WriteInt32(42)
			kw("name").WriteString(s)
			if err := kw("m").WriteMap(func(kw func(string) Writer) error {
				kw("k").WriteString("v")
				return nil
			}); err != nil {
				return err
			}
			return kw("a").WriteArray(func(iw func() Writer) error {
				iw().WriteString("x")
				iw().WriteInt64(7)
				return nil
			})
		})
	}
}

// Harness_C09_History: the bytes a value encodes to do not depend on what the
// library was used for earlier in the process: before the second encoding a
// solver-chosen sequence of other serializations runs, including ones that
// fail half-way through a map, an array or a nested value (with sync.Pool
// handing back whatever was put into it). format 0..3 (JSON, pretty JSON,
// ROR2 header, ROR2 path).
func Harness_C09_History(format, n int) {
	s := verif.String(n)
	verif.PoolReuse(true)
	first, err := c01Encode(format, c09Record(s))
	verif.Assert(err == nil, "encoding failed")
	for step := 0; step < 2; step++ {
		other := verif.Choose(4)
		switch verif.Choose(5) {
		case 0: // nothing
		case 1: // a successful, different serialization
			_, _ = c01Encode(other, c09Record("other"))
		case 2: // fails after two entries of a map
			_, _ = c01Encode(other, func(w Writer) error {
				return w.WriteMap(func(kw func(string) Writer) error {
					kw("z").WriteString("left-over")
					kw("y").WriteInt32(1)
					return c09Boom{}
				})
			})
		case 3: // fails inside a nested map, after an outer entry
			_, _ = c01Encode(other, func(w Writer) error {
				return w.WriteMap(func(kw func(string) Writer) error {
					kw("outer").WriteString("stale")
					return kw("inner").WriteMap(func(kw func(string) Writer) error {
						kw("deep").WriteString("staler")
						return c09Boom{}
					})
				})
			})
		case 4: // fails in the middle of an array
			_, _ = c01Encode(other, func(w Writer) error {
				return w.WriteArray(func(iw func() Writer) error {
					iw().WriteString("item")
					return c09Boom{}
				})
			})
		}
	}
	second, err := c01Encode(format, c09Record(s))
	verif.PoolReuse(false)
	verif.Assert(err == nil, "encoding failed after other uses of the library")
	verif.Assert(first == second, "the same value encoded differently after earlier use of the library: "+second)
	verif.Cover("same")
}
