package batchkeyset

import (
	"sort"
	"unicode/utf8"

	"MODULE/restlicodec"
	common "MODULE/restlidata/generated/com/linkedin/restli/common"
	verif "MODULE/zzverif"
)

// C16 (primitive keys): duplicates rejected, each id transmitted once,
// response entries filed under the requested key, unknown keys rejected.

func c16Keys(n, klen int) []string {
	keys := make([]string, n)
	for i := range keys {
		keys[i] = verif.String(klen)
		verif.Assume(utf8.ValidString(keys[i])) // keys travel as JSON object keys
	}
	return keys
}

// mode 0: the reply holds a solver-chosen subset of the keys and optionally an
// unrequested key; mode 1: the reply holds every key (cheaper, used for n>=2).
func Harness_C16_StringKeys(n, klen, mode int) {
	keys := c16Keys(n, klen)
	set := NewBatchKeySet[string]()
	for i, k := range keys {
		dup := false
		for _, p := range keys[:i] {
			if p == k {
				dup = true
			}
		}
		err := set.AddKey(k)
		if dup {
			verif.Assert(err != nil, "duplicate key accepted")
			verif.Cover("duplicate-rejected")
			return
		}
		verif.Assert(err == nil, "distinct key rejected")
	}
	verif.Cover("keys-added")

	// ids on the wire: every key exactly once
	q, err := set.EncodeQueryParams()
	verif.Assert(err == nil, "EncodeQueryParams failed")
	params, err := restlicodec.ParseQueryParams(q)
	verif.Assert(err == nil, "ids parameter does not parse")
	idsReader := params[EntityIDsField]
	verif.Assert(idsReader != nil, "ids parameter missing")
	var sent []string
	err = idsReader.ReadArray(func(r restlicodec.Reader) error {
		s, e := r.ReadString()
		sent = append(sent, s)
		return e
	})
	verif.Assert(err == nil, "ids list does not decode")
	verif.Assert(len(sent) == n, "number of ids on the wire differs from the number of keys")
	for _, k := range keys {
		c := 0
		for _, s := range sent {
			if s == k {
				c++
			}
		}
		verif.Assert(c == 1, "a key is not transmitted exactly once")
	}

	// server reply: a solver-chosen subset of the keys, optionally one unrequested key
	server := &common.BatchResponse[string, common.EmptyRecord]{}
	included := make([]bool, n)
	for i, k := range keys {
		included[i] = mode == 1 || verif.Bool()
		if included[i] {
			server.AddStatus(k, 200+i)
			server.AddResult(k, common.EmptyRecord{})
		}
	}
	extra := mode == 0 && verif.Bool()
	if extra {
		// one byte longer than every requested key, hence unrequested
		server.AddStatus(keys[0]+"x", 299)
	}
	if server.Results == nil {
		server.Results = map[string]common.EmptyRecord{}
	}
	w := restlicodec.NewCompactJsonWriter()
	verif.Assert(server.MarshalRestLi(w) == nil, "server-side marshaling failed")
	body := w.Finalize()

	r, err := restlicodec.NewJsonReader([]byte(body))
	verif.Assert(err == nil, "client cannot open the response")
	client := &common.BatchResponse[string, common.EmptyRecord]{}
	err = client.UnmarshalWithKeyLocator(r, set)
	if extra {
		verif.Assert(err != nil, "a response mentioning an unrequested key was accepted")
		verif.Cover("unrequested-rejected")
		return
	}
	verif.Assert(err == nil, "a well-formed batch response was rejected")
	cnt := 0
	for i, k := range keys {
		st, ok := client.Statuses[k]
		_, okR := client.Results[k]
		verif.Assert(ok == included[i], "status entry lost or invented")
		verif.Assert(okR == included[i], "result entry lost or invented")
		if ok {
			cnt++
			verif.Assert(st == 200+i, "status filed under the wrong key")
		}
	}
	verif.Assert(len(client.Statuses) == cnt, "extra status entries")
	verif.Assert(len(client.Results) == cnt, "extra result entries")
	verif.Cover("correlated")
}

func Harness_C16_Int64Keys(n int) {
	keys := make([]int64, n)
	for i := range keys {
		keys[i] = verif.Int64()
		verif.Assume(keys[i] >= -12)
		verif.Assume(keys[i] <= 12)
	}
	set := NewBatchKeySet[int64]()
	for i, k := range keys {
		dup := false
		for _, p := range keys[:i] {
			if p == k {
				dup = true
			}
		}
		err := set.AddKey(k)
		if dup {
			verif.Assert(err != nil, "duplicate key accepted")
			verif.Cover("duplicate-rejected")
			return
		}
		verif.Assert(err == nil, "distinct key rejected")
	}
	server := &common.BatchResponse[int64, common.EmptyRecord]{Results: map[int64]common.EmptyRecord{}}
	for i, k := range keys {
		server.AddStatus(k, 200+i)
	}
	w := restlicodec.NewCompactJsonWriter()
	verif.Assert(server.MarshalRestLi(w) == nil, "server-side marshaling failed")
	r, err := restlicodec.NewJsonReader([]byte(w.Finalize()))
	verif.Assert(err == nil, "client cannot open the response")
	client := &common.BatchResponse[int64, common.EmptyRecord]{}
	err = client.UnmarshalWithKeyLocator(r, set)
	verif.Assert(err == nil, "a well-formed batch response was rejected")
	verif.Assert(len(client.Statuses) == n, "entries lost or duplicated")
	for i, k := range keys {
		verif.Assert(client.Statuses[k] == 200+i, "status filed under the wrong key")
	}
	verif.Cover("correlated")
}

func Harness_C16_Twin(klen int) {
	keys := c16Keys(2, klen)
	set := NewBatchKeySet[string]()
	_ = set.AddKey(keys[0])
	verif.Assert(set.AddKey(keys[1]) == nil, "twin: some second key is a duplicate")
}

// Harness_C16_GenericLocate: the hash-bucketed key set (bytes keys) with two
// symbolic keys of klen bytes. "Same bucket, different key" is a path the
// solver has to realise by finding an FNV-1a collision (klen >= 4) or refute.
func Harness_C16_GenericLocate(klen int) {
	k1, k2 := verif.Bytes(klen), verif.Bytes(klen)
	same := string(k1) == string(k2)
	set := NewBytesKeySet()
	verif.Assert(set.AddKey(k1) == nil, "first key rejected")
	orig, found := set.LocateOriginalKey(k2)
	verif.Assert(found == same, "a key that was never added was located (or an added key was not)")
	if found {
		verif.Assert(string(orig) == string(k1), "located a different key")
		verif.Cover("located")
	}
	if fnvOf(k1) == fnvOf(k2) && !same {
		verif.Cover("hash-collision") // the solver produced a genuine FNV-1a collision
	}
	err := set.AddKey(k2)
	verif.Assert((err != nil) == same, "duplicate detection disagrees with key equality")
	// every key now in the set is a duplicate when added again, whichever
	// position it has in its hash bucket (A, B, A with A and B colliding)
	verif.Assert(set.AddKey(k1) != nil, "the first key was accepted a second time")
	verif.Assert(set.AddKey(k2) != nil, "the second key was accepted a second time")
	o1, f1 := set.LocateOriginalKey(k1)
	o2, f2 := set.LocateOriginalKey(k2)
	verif.Assert(f1 && f2 && string(o1) == string(k1) && string(o2) == string(k2), "a requested key is not located after the duplicates were rejected")
	verif.Cover("checked")
}

func fnvOf(b []byte) uint32 {
	h := uint32(2166136261)
	for _, c := range b {
		h ^= uint32(c)
		h *= 16777619
	}
	return h
}

// Harness_C09_BatchIds (C09): the ids parameter lists the keys in ascending
// encoded order whatever the order in which they were added, and whether or
// not the set was encoded before further keys were added: a set encoded, then
// extended, then encoded again prints what a fresh set with the same keys
// prints. kind 0: string keys (primitive set), 1: bytes keys (hash-bucketed set).
func Harness_C09_BatchIds(kind int) {
	raw := [3]string{}
	for i := range raw {
		raw[i] = string([]byte{"abc"[verif.Choose(3)], "xyz"[i]}) // distinct by construction, order solver-chosen
	}
	encodeAfter := verif.Choose(3) // encode once after this many keys (0: only at the end)
	var incremental, fresh string
	if kind == 0 {
		a, b := NewBatchKeySet[string](), NewBatchKeySet[string]()
		for i, k := range raw {
			verif.Assert(a.AddKey(k) == nil, "AddKey")
			if i+1 == encodeAfter {
				_, _ = a.EncodeQueryParams()
			}
		}
		sorted := []string{raw[0], raw[1], raw[2]}
		sort.Strings(sorted)
		for _, k := range sorted {
			verif.Assert(b.AddKey(k) == nil, "AddKey")
		}
		incremental, _ = a.EncodeQueryParams()
		fresh, _ = b.EncodeQueryParams()
	} else {
		a, b := NewBytesKeySet(), NewBytesKeySet()
		for i, k := range raw {
			verif.Assert(a.AddKey([]byte(k)) == nil, "AddKey")
			if i+1 == encodeAfter {
				_, _ = a.EncodeQueryParams()
			}
		}
		sorted := []string{raw[0], raw[1], raw[2]}
		sort.Strings(sorted)
		for _, k := range sorted {
			verif.Assert(b.AddKey([]byte(k)) == nil, "AddKey")
		}
		incremental, _ = a.EncodeQueryParams()
		fresh, _ = b.EncodeQueryParams()
	}
	verif.Assert(incremental == fresh, "the same keys print differently depending on insertion order or on an earlier encoding: "+incremental+" vs "+fresh)
	want := "ids=List("
	sorted := []string{raw[0], raw[1], raw[2]}
	sort.Strings(sorted)
	want += sorted[0] + "," + sorted[1] + "," + sorted[2] + ")"
	verif.Assert(fresh == want, "ids are not in ascending encoded order: "+fresh)
	verif.Cover("ordered")
}
