// Command zzgen drives the repository's current v2 generator on a manifest
// (overlaid into the module as ./zzgen; see engine/cmd/gosym/gen.go).
package main

import (
	"fmt"
	"os"

	"github.com/PapaCharlie/go-restli/v2/cmd"
)

func main() {
	if len(os.Args) < 4 {
		fmt.Fprintln(os.Stderr, "usage: zzgen <dep manifest> <input manifest> <out dir>")
		os.Exit(2)
	}
	var manifests []*cmd.GoRestliManifest
	for _, p := range os.Args[1:3] {
		b, err := os.ReadFile(p)
		if err != nil {
			fmt.Fprintln(os.Stderr, err)
			os.Exit(1)
		}
		m, err := cmd.ReadManifest(b)
		if err != nil {
			fmt.Fprintln(os.Stderr, "manifest", p, err)
			os.Exit(1)
		}
		manifests = append(manifests, m)
	}
	if err := cmd.GenerateCode(os.Args[3], manifests, false); err != nil {
		fmt.Fprintf(os.Stderr, "generate: %+v\n", err)
		os.Exit(1)
	}
}
