#!/bin/sh
set -eu
here=$(cd "$(dirname "$0")" && pwd)
export GOFLAGS=-mod=mod GOPROXY=off GOSUMDB=off GOTOOLCHAIN=local GOWORK=off
mkdir -p "$here/bin" "$here/evidence"
cd "$here/engine" && go build -o "$here/bin/gosym" ./cmd/gosym
echo "gosym built"
