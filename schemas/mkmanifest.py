#!/usr/bin/env python3
"""Writes vt.manifest.json: the verification schema set for the v2 generator
(hand-written manifest in the format cmd.ReadManifest accepts; see DESIGN §4)."""
import json, sys

NS = "vt"
ROOT = "github.com/PapaCharlie/go-restli/v2/zzvt"
SRC = "vt.pdl"

def prim(p): return {"primitive": p}
def ref(n, ns=NS): return {"reference": {"name": n, "namespace": ns}}
def arr(t): return {"array": t}
def mp(t): return {"map": t}
def named(name): return {"name": name, "namespace": NS, "sourceFile": SRC, "doc": ""}
def field(name, t, optional=False, default=None):
    f = {"name": name, "doc": "", "type": t, "isOptional": optional}
    if default is not None:
        f["defaultValue"] = default
    return f
def record(name, fields, includes=()):
    r = named(name); r["includes"] = [{"name": i, "namespace": NS} for i in includes]; r["fields"] = fields
    return {"record": r}

types = []
e = named("Color"); e["Symbols"] = ["RED", "GREEN", "BLUE"]; e["SymbolToDoc"] = {}
types.append({"enum": e})
f = named("Fx4"); f["Size"] = 4
types.append({"fixed": f})
t = named("Tr"); t["type"] = "string"; t["isCustom"] = False
types.append({"typeref": t})
types.append(record("Inner", [field("s", prim("string")), field("n", prim("int32"), default="7")]))
u = named("Un"); u["Union"] = {"HasNull": False, "Members": [
    {"Type": prim("int32"), "Alias": "int"},
    {"Type": prim("string"), "Alias": "string"},
    {"Type": ref("Inner"), "Alias": "vt.Inner"}]}
types.append({"standaloneUnion": u})
types.append(record("Prims", [
    field("i32", prim("int32")), field("i64", prim("int64")), field("f64", prim("float64")), field("f32", prim("float32")),
    field("b", prim("bool")), field("s", prim("string")), field("by", prim("bytes")),
    field("oi32", prim("int32"), True), field("oi64", prim("int64"), True), field("of64", prim("float64"), True),
    field("ob", prim("bool"), True), field("os", prim("string"), True), field("oby", prim("bytes"), True)]))
types.append(record("Outer", [
    field("name", prim("string")), field("note", prim("string"), True),
    field("color", ref("Color")), field("ocolor", ref("Color"), True),
    field("fx", ref("Fx4"), True), field("tr", ref("Tr"), True), field("un", ref("Un"), True),
    field("arr", arr(ref("Inner"))), field("m", mp(prim("string"))), field("mi", mp(ref("Inner")), True),
    field("aa", arr(arr(prim("int32"))), True),
    field("dm", mp(prim("int32")), default="{}")], includes=["Inner"]))
types.append(record("Defaults", [
    field("di", prim("int32"), default="-2147483648"), field("dl", prim("int64"), default="9223372036854775807"),
    field("df", prim("float64"), default="1.5"), field("db", prim("bool"), default="true"),
    field("ds", prim("string"), default=json.dumps("a\"b\\c")), field("dby", prim("bytes"), default=json.dumps("xy")),
    field("de", ref("Color"), default=json.dumps("GREEN")), field("dfx", ref("Fx4"), default=json.dumps("abcd")),
    field("dt", ref("Tr"), default=json.dumps("tr")), field("dr", ref("Inner"), default=json.dumps({"s": "in"})),
    field("du", ref("Un"), default=json.dumps({"string": "u"})),
    field("dea", arr(prim("int32")), default="[]"), field("da", arr(prim("string")), default=json.dumps(["p", "q"])),
    field("dem", mp(prim("int32")), default="{}"), field("dmm", mp(prim("int64")), default=json.dumps({"k": 3})),
    field("dhb", prim("bytes"), default=json.dumps("\u00ff\u0080a")),
    # container defaults whose JSON text merely *contains* an empty container
    field("dnb", arr(prim("string")), default=json.dumps(["[ ]", "{}"])),
    field("dnm", mp(prim("string")), default=json.dumps({"k": "{}"})),
    field("dna", arr(arr(prim("int32"))), default="[[]]"),
    field("req", prim("string"))]))
types.append(record("IncDefaults", [field("own", prim("string"))], includes=["Defaults"]))
types.append(record("Leaf", [field("v", prim("string")), field("w", prim("int32"), True)]))
types.append(record("Mid", [field("ml", mp(ref("Leaf"))), field("t", prim("string"))]))
types.append(record("Deep", [field("am", arr(ref("Mid"))), field("top", prim("string")), field("ol", ref("Leaf"), True)]))
# include chains: two siblings including the same record (which itself includes one)
types.append(record("Base2", [field("b1", prim("string")), field("b2", prim("string")), field("b3", prim("string"), True)]))
types.append(record("Mid2", [field("m1", prim("string"))], includes=["Base2"]))
types.append(record("Alpha", [field("a1", prim("string"))], includes=["Mid2"]))
types.append(record("Beta", [field("p1", prim("string")), field("p2", prim("string"), True)], includes=["Mid2"]))
# include chain of depth two in which only the deepest record declares defaults
types.append(record("Base3", [field("bd", prim("int32"), default="5"), field("bs", arr(prim("string")), default=json.dumps(["x"]))]))
types.append(record("Mid3", [field("m", prim("string"), True)], includes=["Base3"]))
types.append(record("Top3", [field("own", prim("string"), default=json.dumps("o"))], includes=["Mid3"]))
# record-typed fields whose default literal is an (empty / non-empty) object: the nested record's own defaults apply
types.append(record("Hold3", [field("hb", ref("Base3"), default="{}"), field("hs", ref("Base3"), default="{ }"),
                              field("hi", ref("Inner"), default=json.dumps({"s": "x"}))]))
# a required record-typed field whose record has defaults, next to a default of the record's own
types.append(record("Wrap3", [field("b3", ref("Base3")), field("own", prim("string"), default=json.dumps("w"))]))
types.append(record("Plain3", [field("p", prim("string"), True)], includes=["Mid3"]))
# a record with more required fields than a machine word has bits
types.append(record("Wide", [field("f%02d" % i, prim("string")) for i in range(66)]))
# a record without any required field of its own whose nested records have some
types.append(record("Opt", [field("child", ref("Leaf"), True), field("items", arr(ref("Leaf")), True), field("byName", mp(ref("Leaf")), True)]))
types.append(record("KParams", [field("x", prim("int32"), True)]))
ck = named("Ck"); ck["Key"] = {"name": "Inner", "namespace": NS}; ck["Params"] = {"name": "KParams", "namespace": NS}
types.append({"complexKey": ck})
types.append(record("Item", [field("id", prim("int64"), True), field("name", prim("string")), field("note", prim("string"), True),
                             field("tags", arr(prim("string")), True), field("sub", ref("Leaf"), True)]))
types.append(record("Meta", [field("total", prim("int32"))]))

def method(mt, name, onEntity=False, params=(), paging=False, ret=None, metadata=None, returnEntity=False):
    return {"methodType": mt, "name": name, "doc": "", "onEntity": onEntity, "params": list(params), "isPagingSupported": paging,
            "return": ret, "metadata": metadata, "returnEntity": returnEntity}
def rest(name, onEntity=False, ret=None, returnEntity=False, params=()):
    return method("REST_METHOD", name, onEntity, params=params, ret=ret, returnEntity=returnEntity)
def resource(segments, schema, methods, readOnly=(), createOnly=()):
    # one namespace (= one Go package) per resource
    return {"namespace": "vtr." + segments[-1]["resourceName"], "doc": "", "sourceFile": SRC, "resourcePathSegments": segments, "resourceSchema": schema,
            "readOnlyFields": list(readOnly), "createOnlyFields": list(createOnly), "methods": methods}
def seg(name, key=None, keyType=None):
    return {"resourceName": name, "pathKey": ({"name": key, "type": keyType} if key else None)}

item = ref("Item")
resources = [
    resource([seg("things", "thingId", prim("string"))], item, [
        rest("get", True, ret=item), rest("create", False, ret=item), rest("update", True), rest("partial_update", True),
        rest("delete", True), rest("get_all", False, ret=item),
        rest("batch_get", False, ret=item), rest("batch_create", False, ret=item), rest("batch_update", False),
        rest("batch_partial_update", False), rest("batch_delete", False),
        method("FINDER", "search", False, params=[field("kw", prim("string")), field("lim", prim("int32"), True)], paging=True, ret=item),
        method("FINDER", "withMeta", False, params=[field("c", ref("Color"))], ret=item, metadata=ref("Meta")),
        # record-typed query parameters next to a plain required one
        method("FINDER", "crit", False, params=[field("crit", ref("Leaf")), field("other", ref("Leaf"), True), field("lim2", prim("int32"))], ret=item),
        method("ACTION", "ping", False, params=[field("msg", prim("string"))], ret=prim("string")),
        method("ACTION", "touch", True, params=[]),
    ], readOnly=["id"], createOnly=["note"]),
    resource([seg("things", "thingId", prim("string")), seg("parts", "partId", prim("int64"))], ref("Leaf"), [
        rest("get", True, ret=ref("Leaf")), rest("create", False, ret=ref("Leaf"), returnEntity=True)]),
    resource([seg("things", "thingId", prim("string")), seg("info")], ref("Inner"), [
        rest("get", False, ret=ref("Inner")), rest("update", False), rest("delete", False),
        method("ACTION", "reset", False, params=[field("hard", prim("bool"), True)], ret=prim("int32"))]),
    resource([seg("trs", "trId", ref("Tr"))], ref("Leaf"), [
        # a REST method whose declared parameters are all optional
        rest("get", True, ret=ref("Leaf"), params=[field("opt", prim("string"), True), field("cnt", prim("int32"), True)]),
        rest("batch_get", False, ret=ref("Leaf"))]),
    resource([seg("cks", "ckId", ref("Ck"))], ref("Leaf"), [
        rest("get", True, ret=ref("Leaf")), rest("batch_get", False, ret=ref("Leaf")), rest("batch_delete", False),
        rest("batch_update", False), rest("create", False, ret=ref("Leaf"))]),
    resource([seg("root")], ref("Inner"), [rest("get", False, ret=ref("Inner")), rest("update", False)]),
    resource([seg("acts")], None, [method("ACTION", "sum", False, params=[field("a", prim("int32")), field("b", prim("int32"))], ret=prim("int32")),
                                    method("ACTION", "noop", False, params=[])]),
]

manifest = {"packageRoot": ROOT, "inputDataTypes": types, "dependencyDataTypes": [], "resources": resources}
json.dump(manifest, open(sys.argv[1] if len(sys.argv) > 1 else "vt.manifest.json", "w"), indent=1)
