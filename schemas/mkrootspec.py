#!/usr/bin/env python3
# Converts the data types of vt.manifest.json (v2 generator input) into the
# parsed-spec format of the root module's generator: the same type
# descriptions, with the fields of included records flattened into the
# including record (IncludedFrom set), which is what the root generator's Java
# front end produces. Resources are not converted.
import json, sys, os
here = os.path.dirname(os.path.abspath(__file__))
m = json.load(open(os.path.join(here, "vt.manifest.json")))
records = {t["record"]["name"]: t["record"] for t in m["inputDataTypes"] if "record" in t}

def flat_fields(rec):
    out = []
    for inc in rec.get("includes", []):
        r = records[inc["name"]]
        for f in flat_fields(r):
            f = dict(f)
            f.setdefault("IncludedFrom", {"name": r["name"], "namespace": r["namespace"]})
            out.append(f)
    out += [dict(f) for f in rec["fields"]]
    return out

types = []
for t in m["inputDataTypes"]:
    if "record" in t:
        r = dict(t["record"])
        r["fields"] = flat_fields(t["record"])
        r.pop("includes", None)
        types.append({"record": r})
    else:
        types.append(t)
json.dump({"dataTypes": types, "Resources": []}, open(sys.argv[1] if len(sys.argv) > 1 else os.path.join(here, "vt.rootspec.json"), "w"), indent=1)
