package main

import (
	"encoding/json"
	"fmt"
	"go/types"
	"os"
	"path/filepath"
	"regexp"
	"sort"
	"strings"
	"time"

	"golang.org/x/tools/go/packages"
	"golang.org/x/tools/go/ssa"
	"golang.org/x/tools/go/ssa/ssautil"

	"gosym/interp"
)

const (
	modRootPath = "github.com/PapaCharlie/go-restli"
	modV2Path   = "github.com/PapaCharlie/go-restli/v2"
)

// Loaded is one module of the repository loaded together with the harness
// overlay and built to SSA.
type Loaded struct {
	Module      string // "v2" or "root"
	ModulePath  string
	ModuleDir   string
	Prog        *interp.Program
	SSA         *ssa.Program
	Pkgs        map[string]*packages.Package // by import path
	Overlay     map[string]string            // virtual path -> real file (scratch)
	LoadTime    time.Duration
	HarnessPkgs []string // import paths that contain harness files
}

func verifDir() string {
	if d := os.Getenv("VERIF_DIR"); d != "" {
		return d
	}
	return "/verif"
}

func repoDir() string {
	if d := os.Getenv("VERIF_REPO"); d != "" {
		return d
	}
	return "/repo"
}

func goEnv() []string {
	env := os.Environ()
	env = append(env, "GOFLAGS=-mod=mod", "GOPROXY=off", "GOSUMDB=off", "GOTOOLCHAIN=local", "GOWORK=off")
	return env
}

func modulePath(module string) (path, dir string) {
	if module == "v2" {
		return modV2Path, filepath.Join(repoDir(), "v2")
	}
	return modRootPath, repoDir()
}

// buildOverlay materialises the harness sources for a module under scratch and
// returns virtual->real mappings plus the relative package dirs that received
// harness files. extra maps additional virtual relative paths to real files
// (generated bindings).
func buildOverlay(module, scratch string, extra map[string]string) (map[string]string, []string, error) {
	mpath, mdir := modulePath(module)
	ov := map[string]string{}
	pkgSet := map[string]bool{}
	subst := func(src string) string {
		return strings.ReplaceAll(src, "MODULE/", mpath+"/")
	}
	add := func(srcRoot string) error {
		if _, err := os.Stat(srcRoot); err != nil {
			return nil
		}
		return filepath.Walk(srcRoot, func(p string, info os.FileInfo, err error) error {
			if err != nil {
				return err
			}
			if info.IsDir() || !strings.HasSuffix(p, ".go") {
				return nil
			}
			rel, _ := filepath.Rel(srcRoot, p)
			dir := filepath.Dir(rel)
			if strings.HasPrefix(dir, "zzh") && len(extra) == 0 {
				// harnesses over generated bindings need the bindings
				return nil
			}
			base := filepath.Base(rel)
			b, err := os.ReadFile(p)
			if err != nil {
				return err
			}
			real := filepath.Join(scratch, "ov", module, dir, "zz_verif_"+base)
			if err := os.MkdirAll(filepath.Dir(real), 0o755); err != nil {
				return err
			}
			if err := os.WriteFile(real, []byte(subst(string(b))), 0o644); err != nil {
				return err
			}
			ov[filepath.Join(mdir, dir, "zz_verif_"+base)] = real
			pkgSet[dir] = true
			return nil
		})
	}
	if err := add(filepath.Join(verifDir(), "harness", "common")); err != nil {
		return nil, nil, err
	}
	if err := add(filepath.Join(verifDir(), "harness", module)); err != nil {
		return nil, nil, err
	}
	// harnesses over generated data types that are shared with the v2 module
	// (harness/root/zzh/SHARED lists files of harness/v2/zzh)
	if module == "root" && len(extra) > 0 {
		if list, err := os.ReadFile(filepath.Join(verifDir(), "harness", "root", "zzh", "SHARED")); err == nil {
			for _, line := range strings.Split(string(list), "\n") {
				name := strings.TrimSpace(line)
				if name == "" || strings.HasPrefix(name, "#") {
					continue
				}
				b, err := os.ReadFile(filepath.Join(verifDir(), "harness", "v2", "zzh", name))
				if err != nil {
					return nil, nil, fmt.Errorf("shared harness %s: %v", name, err)
				}
				real := filepath.Join(scratch, "ov", module, "zzh", "zz_verif_"+name)
				os.MkdirAll(filepath.Dir(real), 0o755)
				if err := os.WriteFile(real, []byte(subst(string(b))), 0o644); err != nil {
					return nil, nil, err
				}
				ov[filepath.Join(mdir, "zzh", "zz_verif_"+name)] = real
				pkgSet["zzh"] = true
			}
		}
	}
	// zzverif package (and zzsync, the instrumented stand-in for package sync)
	for _, rel := range []string{"zzverif/verif.go", "zzverif/zzsync/zzsync.go"} {
		vb, err := os.ReadFile(filepath.Join(verifDir(), "harness", rel))
		if err != nil {
			return nil, nil, err
		}
		vreal := filepath.Join(scratch, "ov", module, rel)
		os.MkdirAll(filepath.Dir(vreal), 0o755)
		if err := os.WriteFile(vreal, []byte(subst(string(vb))), 0o644); err != nil {
			return nil, nil, err
		}
		ov[filepath.Join(mdir, rel)] = vreal
	}
	// instrumented copies of the current source: import "sync" -> zzsync
	// (an entry ending in "/" stands for every non-test Go file of that
	// directory that imports "sync")
	var instr []string
	for _, rel := range instrumentFiles {
		if !strings.HasSuffix(rel, "/") {
			instr = append(instr, rel)
			continue
		}
		ents, err := os.ReadDir(filepath.Join(mdir, rel))
		if err != nil {
			continue // the other module generation may lack the directory
		}
		for _, e := range ents {
			n := e.Name()
			if e.IsDir() || !strings.HasSuffix(n, ".go") || strings.HasSuffix(n, "_test.go") {
				continue
			}
			b, err := os.ReadFile(filepath.Join(mdir, rel, n))
			if err == nil && syncImportRe.Match(b) {
				instr = append(instr, rel+n)
			}
		}
	}
	for _, rel := range instr {
		src, err := os.ReadFile(filepath.Join(mdir, rel))
		if err != nil {
			return nil, nil, fmt.Errorf("instrument %s: %v", rel, err)
		}
		out := syncImportRe.ReplaceAllString(string(src), "${1}${2}sync \""+mpath+"/zzverif/zzsync\"")
		if out == string(src) {
			return nil, nil, fmt.Errorf("instrument %s: no import of \"sync\" found to rewrite", rel)
		}
		real := filepath.Join(scratch, "ov", module, "instr", rel)
		os.MkdirAll(filepath.Dir(real), 0o755)
		if err := os.WriteFile(real, []byte(out), 0o644); err != nil {
			return nil, nil, err
		}
		ov[filepath.Join(mdir, rel)] = real
	}
	for rel, real := range extra {
		ov[filepath.Join(mdir, rel)] = real
	}
	var dirs []string
	for d := range pkgSet {
		dirs = append(dirs, d)
	}
	sort.Strings(dirs)
	return ov, dirs, nil
}

// instrumentFiles lists module-relative source files whose import of "sync"
// is redirected to zzsync for this process (set per check / --instrument).
var instrumentFiles []string

var syncImportRe = regexp.MustCompile(`(?m)^(\s*)(import\s+)?(?:sync\s+)?"sync"[ \t]*$`)

var initWhitelist = []string{
	"strconv", "strings", "net/url", "sort", "io", "math", "math/bits", "unicode/utf8", "unicode/utf16", "unicode", "bytes",
	"mime", "mime/multipart", "net/textproto", "path", "path/filepath", "bufio", "slices", "maps", "cmp",
	"internal/bytealg", "internal/itoa", "internal/stringslite", "encoding/hex", "encoding/base64", "errors_placeholder",
	"github.com/mailru/easyjson", "github.com/mailru/easyjson/jlexer", "github.com/mailru/easyjson/jwriter", "github.com/mailru/easyjson/buffer",
	"github.com/josharian/intern", "io/fs", "internal/oserror", "vendor/golang.org/x/net/http/httpguts", "regexp", "regexp/syntax", "math/rand", "io/ioutil", "html", "html/template_placeholder",
}

var initPrefixes = []string{modRootPath}

var allowUninit = []string{
	"internal/cpu.*", "runtime.*", "internal/godebug.*", "sync.*", "internal/race.*",
	"net/http.NoBody",                    // var NoBody = noBody{}: the zero value is the initial value
	"os.Stderr", "os.Stdout", "os.Stdin", // only ever passed to logging, which is stubbed
	"net/http.use121", // GODEBUG httpmuxgo121 unset: false
}

func loadModule(module string, scratch string, extra map[string]string, extraPatterns []string) (*Loaded, error) {
	t0 := time.Now()
	mpath, mdir := modulePath(module)
	ov, dirs, err := buildOverlay(module, scratch, extra)
	if err != nil {
		return nil, err
	}
	overlayBytes := map[string][]byte{}
	for v, r := range ov {
		b, err := os.ReadFile(r)
		if err != nil {
			return nil, err
		}
		overlayBytes[v] = b
	}
	var patterns []string
	var harnessPkgs []string
	for _, d := range dirs {
		patterns = append(patterns, "./"+d)
		harnessPkgs = append(harnessPkgs, mpath+"/"+filepath.ToSlash(d))
	}
	patterns = append(patterns, "./zzverif")
	patterns = append(patterns, extraPatterns...)
	cfg := &packages.Config{
		Mode: packages.NeedName | packages.NeedFiles | packages.NeedCompiledGoFiles | packages.NeedImports |
			packages.NeedDeps | packages.NeedTypes | packages.NeedSyntax | packages.NeedTypesInfo | packages.NeedTypesSizes | packages.NeedModule,
		Dir:     mdir,
		Env:     goEnv(),
		Overlay: overlayBytes,
	}
	pkgs, err := packages.Load(cfg, patterns...)
	if err != nil {
		return nil, fmt.Errorf("packages.Load: %v", err)
	}
	nerr := 0
	packages.Visit(pkgs, nil, func(p *packages.Package) {
		for _, e := range p.Errors {
			fmt.Fprintf(os.Stderr, "load error: %s: %v\n", p.PkgPath, e)
			nerr++
		}
	})
	if nerr > 0 {
		return nil, fmt.Errorf("%d load errors (module %s)", nerr, module)
	}
	prog, _ := ssautil.AllPackages(pkgs, ssa.InstantiateGenerics)
	prog.Build()
	var sizes types.Sizes
	byPath := map[string]*packages.Package{}
	packages.Visit(pkgs, nil, func(p *packages.Package) {
		byPath[p.PkgPath] = p
		if sizes == nil && p.TypesSizes != nil {
			sizes = p.TypesSizes
		}
	})
	ip := interp.NewProgram(prog, sizes, initWhitelist, initPrefixes, allowUninit)
	ip.InitValues = map[string]interface{}{
		"net/http.maxSlice": int(8), // var maxSlice int = 8 (routing tree: slice-to-map threshold)
	}
	return &Loaded{
		Module: module, ModulePath: mpath, ModuleDir: mdir,
		Prog: ip, SSA: prog, Pkgs: byPath, Overlay: ov,
		LoadTime: time.Since(t0), HarnessPkgs: harnessPkgs,
	}, nil
}

// writeOverlayJSON writes a go-command overlay file including extra entries.
func (l *Loaded) writeOverlayJSON(path string, extra map[string]string) error {
	m := map[string]string{}
	for k, v := range l.Overlay {
		m[k] = v
	}
	for k, v := range extra {
		m[k] = v
	}
	b, _ := json.MarshalIndent(map[string]interface{}{"Replace": m}, "", " ")
	return os.WriteFile(path, b, 0o644)
}
