package main

import (
	"bytes"
	"encoding/json"
	"fmt"
	"os"
	"os/exec"
	"path/filepath"
	"strings"
)

// generateBindings runs the repository's CURRENT generator (overlaid driver
// ./zzgen in the v2 module) on the verification manifest and returns the
// overlay entries that place the emitted files under <module>/zzvt/.
func generateBindings(module, scratch string) (map[string]string, error) {
	if module == "root" {
		return generateRootBindings(scratch)
	}
	_, mdir := modulePath(module)
	out := filepath.Join(scratch, "gen-"+module)
	os.RemoveAll(out)
	if err := os.MkdirAll(out, 0o755); err != nil {
		return nil, err
	}
	ov := filepath.Join(scratch, "gen-overlay.json")
	drv := filepath.Join(verifDir(), "harness", "gen", "zzgen_main.go")
	if err := os.WriteFile(ov, []byte(fmt.Sprintf(`{"Replace": {%q: %q}}`, filepath.Join(mdir, "zzgen", "main.go"), drv)), 0o644); err != nil {
		return nil, err
	}
	dep := filepath.Join(mdir, "restlidata", "generated", "go-restli-manifest.gr.json")
	manifest := filepath.Join(verifDir(), "schemas", "vt.manifest.json")
	if genManifestOverride != "" {
		manifest = genManifestOverride
	}
	cmd := exec.Command("go", "run", "-mod=mod", "-overlay", ov, "./zzgen", dep, manifest, out)
	cmd.Dir = mdir
	cmd.Env = goEnv()
	var buf bytes.Buffer
	cmd.Stdout = &buf
	cmd.Stderr = &buf
	if err := cmd.Run(); err != nil {
		return nil, fmt.Errorf("generator failed: %v\n%s", err, trunc(buf.String(), 4000))
	}
	extra := map[string]string{}
	err := filepath.Walk(out, func(p string, info os.FileInfo, err error) error {
		if err != nil {
			return err
		}
		if info.IsDir() || !strings.HasSuffix(p, ".go") {
			return nil
		}
		rel, _ := filepath.Rel(out, p)
		if strings.HasSuffix(rel, "_test.gr.go") {
			return nil
		}
		extra[filepath.Join("zzvt", rel)] = p
		return nil
	})
	if err != nil {
		return nil, err
	}
	if len(extra) == 0 {
		return nil, fmt.Errorf("generator produced no files")
	}
	return extra, nil
}

// generateRootBindings runs the ROOT module's current generator (go run .)
// on the data types of the verification manifest, converted to its
// parsed-spec format: same type descriptions, the fields of included records
// flattened into the including record with IncludedFrom set (which is what
// the root generator's Java front end emits). Resources are not converted.
func generateRootBindings(scratch string) (map[string]string, error) {
	mpath, mdir := modulePath("root")
	raw, err := os.ReadFile(filepath.Join(verifDir(), "schemas", "vt.manifest.json"))
	if err != nil {
		return nil, err
	}
	var manifest struct {
		InputDataTypes []map[string]map[string]interface{} `json:"inputDataTypes"`
	}
	if err := json.Unmarshal(raw, &manifest); err != nil {
		return nil, err
	}
	records := map[string]map[string]interface{}{}
	for _, t := range manifest.InputDataTypes {
		if r, ok := t["record"]; ok {
			records[r["name"].(string)] = r
		}
	}
	var flat func(r map[string]interface{}) []interface{}
	flat = func(r map[string]interface{}) []interface{} {
		var out []interface{}
		if incs, ok := r["includes"].([]interface{}); ok {
			for _, inc := range incs {
				id := inc.(map[string]interface{})
				ir := records[id["name"].(string)]
				if ir == nil {
					continue
				}
				for _, f := range flat(ir) {
					cp := map[string]interface{}{}
					for k, v := range f.(map[string]interface{}) {
						cp[k] = v
					}
					if _, has := cp["IncludedFrom"]; !has {
						cp["IncludedFrom"] = map[string]interface{}{"name": ir["name"], "namespace": ir["namespace"]}
					}
					out = append(out, cp)
				}
			}
		}
		if fs, ok := r["fields"].([]interface{}); ok {
			out = append(out, fs...)
		}
		return out
	}
	var types []interface{}
	for _, t := range manifest.InputDataTypes {
		if r, ok := t["record"]; ok {
			cp := map[string]interface{}{}
			for k, v := range r {
				if k != "includes" {
					cp[k] = v
				}
			}
			cp["fields"] = flat(r)
			types = append(types, map[string]interface{}{"record": cp})
		} else {
			types = append(types, t)
		}
	}
	spec, _ := json.MarshalIndent(map[string]interface{}{"dataTypes": types, "Resources": []interface{}{}}, "", " ")
	specPath := filepath.Join(scratch, "vt.rootspec.json")
	if err := os.WriteFile(specPath, spec, 0o644); err != nil {
		return nil, err
	}
	out := filepath.Join(scratch, "gen-root")
	os.RemoveAll(out)
	if err := os.MkdirAll(out, 0o755); err != nil {
		return nil, err
	}
	cmd := exec.Command("go", "run", "-mod=mod", ".", "-p", mpath+"/zzvt", "-o", out, specPath)
	cmd.Dir = mdir
	cmd.Env = goEnv()
	var buf bytes.Buffer
	cmd.Stdout, cmd.Stderr = &buf, &buf
	if err := cmd.Run(); err != nil {
		return nil, fmt.Errorf("root generator failed: %v\n%s", err, trunc(buf.String(), 4000))
	}
	extra := map[string]string{}
	err = filepath.Walk(out, func(p string, info os.FileInfo, err error) error {
		if err != nil {
			return err
		}
		if info.IsDir() || !strings.HasSuffix(p, ".go") || strings.HasSuffix(p, "_test.gr.go") {
			return nil
		}
		rel, _ := filepath.Rel(out, p)
		extra[filepath.Join("zzvt", rel)] = p
		return nil
	})
	if err != nil {
		return nil, err
	}
	if len(extra) == 0 {
		return nil, fmt.Errorf("root generator produced no files")
	}
	return extra, nil
}

// genManifestOverride replaces the harness schema set for one generator run
// (generatorRefusesDefaults).
var genManifestOverride string

func stripDefaults(v interface{}) interface{} {
	switch x := v.(type) {
	case map[string]interface{}:
		delete(x, "defaultValue")
		for k, c := range x {
			x[k] = stripDefaults(c)
		}
	case []interface{}:
		for i, c := range x {
			x[i] = stripDefaults(c)
		}
	}
	return v
}

// generatorRefusesDefaults decides why the v2 generator failed on the harness
// schema set: it runs the same generator on the same schemas with every
// schema default removed. If that run succeeds, the failure is caused by a
// (well-formed) default value the generator refuses - such a default is never
// applied, which is a violation of C13 and not merely a broken build.
func generatorRefusesDefaults(module, scratch string) bool {
	if module != "v2" {
		return false
	}
	raw, err := os.ReadFile(filepath.Join(verifDir(), "schemas", "vt.manifest.json"))
	if err != nil {
		return false
	}
	var doc interface{}
	if json.Unmarshal(raw, &doc) != nil {
		return false
	}
	out, err := json.Marshal(stripDefaults(doc))
	if err != nil {
		return false
	}
	alt := filepath.Join(scratch, "vt.nodefaults.manifest.json")
	if os.WriteFile(alt, out, 0o644) != nil {
		return false
	}
	genManifestOverride = alt
	defer func() { genManifestOverride = "" }()
	_, err = generateBindings(module, scratch)
	return err == nil
}
