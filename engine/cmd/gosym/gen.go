package main

import (
	"bytes"
	"fmt"
	"os"
	"os/exec"
	"path/filepath"
	"strings"
)

// generateBindings runs the repository's CURRENT generator (overlaid driver
// ./zzgen in the v2 module) on the verification manifest and returns the
// overlay entries that place the emitted files under <module>/zzvt/.
func generateBindings(module, scratch string) (map[string]string, error) {
	if module != "v2" {
		return nil, fmt.Errorf("bindings are generated for the v2 module only")
	}
	_, mdir := modulePath(module)
	out := filepath.Join(scratch, "gen-"+module)
	os.RemoveAll(out)
	if err := os.MkdirAll(out, 0o755); err != nil {
		return nil, err
	}
	ov := filepath.Join(scratch, "gen-overlay.json")
	drv := filepath.Join(verifDir(), "harness", "gen", "zzgen_main.go")
	if err := os.WriteFile(ov, []byte(fmt.Sprintf(`{"Replace": {%q: %q}}`, filepath.Join(mdir, "zzgen", "main.go"), drv)), 0o644); err != nil {
		return nil, err
	}
	dep := filepath.Join(mdir, "restlidata", "generated", "go-restli-manifest.gr.json")
	manifest := filepath.Join(verifDir(), "schemas", "vt.manifest.json")
	cmd := exec.Command("go", "run", "-mod=mod", "-overlay", ov, "./zzgen", dep, manifest, out)
	cmd.Dir = mdir
	cmd.Env = goEnv()
	var buf bytes.Buffer
	cmd.Stdout = &buf
	cmd.Stderr = &buf
	if err := cmd.Run(); err != nil {
		return nil, fmt.Errorf("generator failed: %v\n%s", err, trunc(buf.String(), 4000))
	}
	extra := map[string]string{}
	err := filepath.Walk(out, func(p string, info os.FileInfo, err error) error {
		if err != nil {
			return err
		}
		if info.IsDir() || !strings.HasSuffix(p, ".go") {
			return nil
		}
		rel, _ := filepath.Rel(out, p)
		if strings.HasSuffix(rel, "_test.gr.go") {
			return nil
		}
		extra[filepath.Join("zzvt", rel)] = p
		return nil
	})
	if err != nil {
		return nil, err
	}
	if len(extra) == 0 {
		return nil, fmt.Errorf("generator produced no files")
	}
	return extra, nil
}
