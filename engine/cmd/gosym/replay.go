package main

import (
	"bytes"
	"encoding/json"
	"fmt"
	"go/types"
	"os"
	"os/exec"
	"path/filepath"
	"regexp"
	"strconv"
	"strings"
	"time"
)

// TapeSpec is one input vector for one harness call.
type TapeSpec struct {
	Harness string   `json:"harness"`
	Args    []int    `json:"args"`
	Tape    []uint64 `json:"tape"`
	Path    string   `json:"-"`
}

type NativeResult struct {
	Outcome  string
	Msg      string
	Observed string
}

func writeTape(path string, t TapeSpec) error {
	b, _ := json.Marshal(t)
	if err := os.MkdirAll(filepath.Dir(path), 0o755); err != nil {
		return err
	}
	return os.WriteFile(path, b, 0o644)
}

// replayTestSource generates the in-package test that runs tapes natively.
func replayTestSource(l *Loaded, pkgPath string) (string, error) {
	p := l.Pkgs[pkgPath]
	if p == nil {
		return "", fmt.Errorf("package %s not loaded", pkgPath)
	}
	var sb strings.Builder
	fmt.Fprintf(&sb, "package %s\n\nimport (\n\t\"fmt\"\n\t\"os\"\n\t\"strings\"\n\t\"testing\"\n\t\"time\"\n\n\tzzverif %q\n)\n\n", p.Name, l.ModulePath+"/zzverif")
	sb.WriteString("var zzVerifTable = map[string]func([]int){\n")
	for _, fn := range l.Prog.Functions(pkgPath, "Harness_") {
		sig := fn.Signature
		ok := true
		var args []string
		for k := 0; k < sig.Params().Len(); k++ {
			b, isB := sig.Params().At(k).Type().Underlying().(*types.Basic)
			if !isB || b.Kind() != types.Int {
				ok = false
			}
			args = append(args, fmt.Sprintf("a[%d]", k))
		}
		if !ok || sig.Results().Len() != 0 {
			continue
		}
		fmt.Fprintf(&sb, "\t%q: func(a []int) { %s(%s) },\n", fn.Name(), fn.Name(), strings.Join(args, ", "))
	}
	sb.WriteString("}\n\n")
	sb.WriteString(`func TestZZVerifReplay(t *testing.T) {
	list, err := os.ReadFile(os.Getenv("VERIF_TAPELIST"))
	if err != nil {
		t.Fatal(err)
	}
	for _, p := range strings.Split(strings.TrimSpace(string(list)), "\n") {
		if p == "" {
			continue
		}
		h, args, err := zzverif.LoadTape(p)
		if err != nil {
			t.Fatal(err)
		}
		f := zzVerifTable[h]
		if f == nil {
			fmt.Printf("VERIF-OUTCOME\t%s\tmissing\t%q\t\n", p, h)
			continue
		}
		type res struct{ out, msg, obs string }
		ch := make(chan res, 1)
		go func() {
			out, msg := zzverif.RunNative(func() { f(args) })
			ch <- res{out, msg, strings.Join(zzverif.Observed, ";")}
		}()
		select {
		case r := <-ch:
			fmt.Printf("VERIF-OUTCOME\t%s\t%s\t%q\t%q\n", p, r.out, r.msg, r.obs)
		case <-time.After(20 * time.Second):
			fmt.Printf("VERIF-OUTCOME\t%s\thang\t\"no result after 20s\"\t\"\"\n", p)
			return
		}
	}
}
`)
	return sb.String(), nil
}

// nativeReplay runs the tapes (all for harnesses of pkgPath) against the
// natively compiled package and returns results keyed by tape path.
func nativeReplay(l *Loaded, pkgPath string, tapes []TapeSpec, scratch string) (map[string]NativeResult, string, error) {
	src, err := replayTestSource(l, pkgPath)
	if err != nil {
		return nil, "", err
	}
	p := l.Pkgs[pkgPath]
	rel := strings.TrimPrefix(pkgPath, l.ModulePath)
	rel = strings.TrimPrefix(rel, "/")
	dirTag := strings.ReplaceAll(rel, "/", "_")
	if dirTag == "" {
		dirTag = "root"
	}
	_ = p
	testReal := filepath.Join(scratch, "replay_"+l.Module+"_"+dirTag+"_test.go")
	if err := os.WriteFile(testReal, []byte(src), 0o644); err != nil {
		return nil, "", err
	}
	ovPath := filepath.Join(scratch, "overlay_"+l.Module+"_"+dirTag+".json")
	extra := map[string]string{filepath.Join(l.ModuleDir, rel, "zz_verif_replay_test.go"): testReal}
	if err := l.writeOverlayJSON(ovPath, extra); err != nil {
		return nil, "", err
	}
	listPath := filepath.Join(scratch, fmt.Sprintf("tapelist_%s_%s_%d.txt", l.Module, dirTag, time.Now().UnixNano()))
	var lb strings.Builder
	for _, t := range tapes {
		lb.WriteString(t.Path + "\n")
	}
	if err := os.WriteFile(listPath, []byte(lb.String()), 0o644); err != nil {
		return nil, "", err
	}
	// Build the test binary once per package (the package directory may exist
	// only in the overlay, so "go test" cannot chdir into it) and run it from scratch.
	bin := filepath.Join(scratch, "replay_"+l.Module+"_"+dirTag+".test")
	if _, err := os.Stat(bin); err != nil {
		build := exec.Command("go", "test", "-mod=mod", "-vet=off", "-c", "-overlay", ovPath, "-o", bin, pkgPath)
		build.Dir = l.ModuleDir
		build.Env = goEnv()
		var bout bytes.Buffer
		build.Stdout = &bout
		build.Stderr = &bout
		if err := build.Run(); err != nil {
			return nil, bout.String(), fmt.Errorf("go test -c failed: %v\n%s", err, trunc(bout.String(), 4000))
		}
	}
	cmd := exec.Command(bin, "-test.run", "^TestZZVerifReplay$", "-test.v", "-test.timeout", "900s")
	cmd.Dir = scratch
	cmd.Env = append(goEnv(), "VERIF_TAPELIST="+listPath)
	var out bytes.Buffer
	cmd.Stdout = &out
	cmd.Stderr = &out
	runErr := cmd.Run()
	res := map[string]NativeResult{}
	for _, line := range strings.Split(out.String(), "\n") {
		if !strings.HasPrefix(line, "VERIF-OUTCOME\t") {
			continue
		}
		f := strings.Split(line, "\t")
		if len(f) < 5 {
			continue
		}
		msg, _ := strconv.Unquote(f[3])
		obs, _ := strconv.Unquote(f[4])
		res[f[1]] = NativeResult{Outcome: f[2], Msg: msg, Observed: obs}
	}
	if len(res) < len(tapes) {
		// the test binary died (fatal error, os.Exit, timeout): attribute to the first missing tape
		for _, t := range tapes {
			if _, ok := res[t.Path]; !ok {
				res[t.Path] = NativeResult{Outcome: "crash", Msg: trunc(out.String(), 2000)}
				break
			}
		}
	}
	if runErr != nil && len(res) == 0 {
		return res, out.String(), fmt.Errorf("go test failed: %v\n%s", runErr, trunc(out.String(), 4000))
	}
	return res, out.String(), nil
}

var raceSiteRe = regexp.MustCompile(`([A-Za-z0-9_./-]+\.go):(\d+)`)

// raceReplay confirms a data race reported by the engine's happens-before
// detector: the harness is compiled with the Go race detector and run with
// VERIF_FREE=1, where zzverif.RunThreads starts the threads as ordinary
// goroutines and zzsync falls through to the real sync package (a forced
// schedule would hand a baton through channels and thereby order every
// access). The race is confirmed when the detector prints a report that
// mentions one of the source files of the engine's report.
func raceReplay(l *Loaded, pkgPath string, tape TapeSpec, engineMsg string, scratch string) (confirmed bool, excerpt string, err error) {
	src, err := replayTestSource(l, pkgPath)
	if err != nil {
		return false, "", err
	}
	rel := strings.TrimPrefix(strings.TrimPrefix(pkgPath, l.ModulePath), "/")
	dirTag := strings.ReplaceAll(rel, "/", "_")
	if dirTag == "" {
		dirTag = "root"
	}
	testReal := filepath.Join(scratch, "replay_"+l.Module+"_"+dirTag+"_test.go")
	if err := os.WriteFile(testReal, []byte(src), 0o644); err != nil {
		return false, "", err
	}
	ovPath := filepath.Join(scratch, "overlay_race_"+l.Module+"_"+dirTag+".json")
	extra := map[string]string{filepath.Join(l.ModuleDir, rel, "zz_verif_replay_test.go"): testReal}
	if err := l.writeOverlayJSON(ovPath, extra); err != nil {
		return false, "", err
	}
	bin := filepath.Join(scratch, "replay_race_"+l.Module+"_"+dirTag+".test")
	if _, statErr := os.Stat(bin); statErr != nil {
		build := exec.Command("go", "test", "-mod=mod", "-race", "-vet=off", "-c", "-overlay", ovPath, "-o", bin, pkgPath)
		build.Dir = l.ModuleDir
		build.Env = append(goEnv(), "CGO_ENABLED=1")
		var bout bytes.Buffer
		build.Stdout, build.Stderr = &bout, &bout
		if err := build.Run(); err != nil {
			return false, "", fmt.Errorf("go test -race -c failed: %v\n%s", err, trunc(bout.String(), 3000))
		}
	}
	listPath := filepath.Join(scratch, fmt.Sprintf("racelist_%d.txt", time.Now().UnixNano()))
	// the same tape several times: each run starts the goroutines afresh
	if err := os.WriteFile(listPath, []byte(strings.Repeat(tape.Path+"\n", 20)), 0o644); err != nil {
		return false, "", err
	}
	cmd := exec.Command(bin, "-test.run", "^TestZZVerifReplay$", "-test.timeout", "300s")
	cmd.Dir = scratch
	cmd.Env = append(goEnv(), "VERIF_TAPELIST="+listPath, "VERIF_FREE=1", "GORACE=halt_on_error=0")
	var out bytes.Buffer
	cmd.Stdout, cmd.Stderr = &out, &out
	_ = cmd.Run()
	text := out.String()
	idx := strings.Index(text, "WARNING: DATA RACE")
	if idx < 0 {
		return false, trunc(text, 400), nil
	}
	files := map[string]bool{}
	for _, m := range raceSiteRe.FindAllStringSubmatch(engineMsg, -1) {
		files[filepath.Base(m[1])] = true
	}
	for _, block := range strings.Split(text, "WARNING: DATA RACE")[1:] {
		if end := strings.Index(block, "=================="); end >= 0 {
			block = block[:end]
		}
		for f := range files {
			if strings.Contains(block, "/"+f+":") {
				lines := strings.Split(strings.TrimSpace(block), "\n")
				if len(lines) > 6 {
					lines = lines[:6]
				}
				return true, strings.Join(lines, " | "), nil
			}
		}
	}
	return false, "race detector reported only races elsewhere: " + trunc(text[idx:], 400), nil
}
