// gosym: bounded symbolic (concolic, solver-complete) execution of Go SSA for
// the go-restli verification checks.
package main

import (
	"flag"
	"fmt"
	"os"
	"runtime"
	"runtime/pprof"
	"strconv"
	"strings"
	"time"

	"gosym/interp"
)

func main() {
	if len(os.Args) < 2 {
		usage()
	}
	switch os.Args[1] {
	case "run":
		cmdRun(os.Args[2:])
	case "check":
		os.Exit(cmdCheck(os.Args[2:]))
	default:
		usage()
	}
}

func usage() {
	fmt.Fprintln(os.Stderr, "usage: gosym check <property> [--tier quick|thorough] | gosym run --module v2 --pkg restlicodec --func F --args 1,2")
	os.Exit(2)
}

func parseInts(s string) []int {
	var r []int
	if s == "" {
		return r
	}
	for _, p := range strings.Split(s, ",") {
		n, err := strconv.Atoi(strings.TrimSpace(p))
		if err != nil {
			fmt.Fprintln(os.Stderr, "bad int list:", s)
			os.Exit(2)
		}
		r = append(r, n)
	}
	return r
}

func cmdRun(args []string) {
	fs := flag.NewFlagSet("run", flag.ExitOnError)
	module := fs.String("module", "v2", "v2 or root")
	pkg := fs.String("pkg", "restlicodec", "package dir relative to the module")
	fn := fs.String("func", "", "harness function")
	argstr := fs.String("args", "", "comma separated int args")
	workers := fs.Int("workers", runtime.NumCPU(), "workers")
	maxPaths := fs.Int("max-paths", 0, "path cap")
	solver := fs.String("solver", "z3-new", "z3 | z3-new | cvc5")
	budget := fs.Int64("budget", 5_000_000, "instruction budget per path")
	verbose := fs.Bool("v", false, "print samples")
	gen := fs.Bool("gen", false, "generate vt bindings first")
	qtimeout := fs.Int("query-timeout-ms", 0, "per-query solver timeout")
	inputsStr := fs.String("inputs", "", "run once with these input values (comma separated) and print the result")
	itrace := fs.Bool("itrace", false, "with --inputs: print every instruction")
	instr := fs.String("instrument", "", "comma separated module-relative files to compile against zzsync")
	fs.Parse(args)

	if p := os.Getenv("GOSYM_CPUPROF"); p != "" {
		f, _ := os.Create(p)
		pprof.StartCPUProfile(f)
		defer pprof.StopCPUProfile()
	}
	if *instr != "" {
		instrumentFiles = strings.Split(*instr, ",")
	}
	scratch, err := os.MkdirTemp("", "gosym-")
	if err != nil {
		panic(err)
	}
	defer os.RemoveAll(scratch)
	var extra map[string]string
	if *gen {
		extra, err = generateBindings(*module, scratch)
		if err != nil {
			fmt.Fprintln(os.Stderr, "generate:", err)
			os.Exit(2)
		}
	}
	l, err := loadModule(*module, scratch, extra, nil)
	if err != nil {
		fmt.Fprintln(os.Stderr, err)
		os.Exit(2)
	}
	fmt.Fprintf(os.Stderr, "loaded %s in %s\n", *module, l.LoadTime.Round(time.Millisecond))
	if *inputsStr != "" {
		var in []uint64
		for _, x := range parseInts(*inputsStr) {
			in = append(in, uint64(x))
		}
		f := l.Prog.Lookup(l.ModulePath+"/"+*pkg, *fn)
		r := l.Prog.Run(f, parseInts(*argstr), interp.RunConfig{Inputs: in, Budget: *budget, Trace: *itrace})
		fmt.Printf("outcome=%s msg=%s site=%s tried=%v steps=%d\n%s\n", r.Outcome, r.Msg, r.PanicSite, r.TriedSites, r.Steps, r.Stack)
		for k, br := range r.Trace {
			fmt.Printf("  [%d] %v kind=%d %s  @%s\n", k, br.Taken, br.Kind, br.Cond, br.Site)
		}
		return
	}
	job := &Job{Loaded: l, Pkg: l.ModulePath + "/" + *pkg, Func: *fn, Args: parseInts(*argstr), Budget: *budget, MaxPaths: *maxPaths, QueryTimeoutMs: *qtimeout}
	res := explore(job, *workers, *solver)
	printJobResult(res, *verbose)
	pprof.StopCPUProfile()
	os.RemoveAll(scratch)
	if len(res.EngineErrors) > 0 {
		os.Exit(2)
	}
	if len(res.Findings) > 0 {
		os.Exit(1)
	}
}

func printJobResult(res *JobResult, verbose bool) {
	fmt.Printf("%s: paths=%d outcomes=%v queries=%d (sat %d unsat %d unknown %d err %d) solver=%.1fs steps=%d decisions=%d wall=%.1fs exhausted=%v %s\n",
		res.Job.Name(), res.Paths, res.ByOutcome, res.Queries, res.Sat, res.Unsat, res.Unknown, res.SolverErrors,
		res.SolverTime.Seconds(), res.Steps, res.Decisions, res.Wall.Seconds(), res.Exhausted, res.Capped)
	fmt.Printf("  query cache: hits=%d misses=%d trivially-unsat=%d\n", cacheHits, cacheMisses, trivialUnsat)
	if len(res.Covers) > 0 {
		fmt.Printf("  covers: %v\n", res.Covers)
	}
	for _, e := range res.EngineErrors {
		fmt.Printf("  ENGINE-ERROR: %s\n", e)
	}
	for k, f := range res.Findings {
		if k >= 10 && !verbose {
			fmt.Printf("  ... %d more findings\n", len(res.Findings)-k)
			break
		}
		fmt.Printf("  FINDING %s: %s site=%s inputs=%v\n", f.Outcome, trunc(f.Msg, 300), f.PanicSite, renderInputs(f.Inputs, f.Labels))
	}
	if verbose {
		for _, s := range res.Samples {
			fmt.Printf("  sample: %v\n", s)
		}
		for _, k := range sortedKeys(res.Externals) {
			fmt.Printf("  external: %s x%d\n", k, res.Externals[k])
		}
	}
}
