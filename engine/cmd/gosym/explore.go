package main

import (
	"fmt"
	"os"
	"sort"
	"strings"
	"sync"
	"sync/atomic"
	"time"

	"golang.org/x/tools/go/ssa"

	"gosym/interp"
	"gosym/smt"
)

// Job is one harness function at one concrete argument vector.
type Job struct {
	Loaded         *Loaded
	Pkg            string // import path
	Func           string
	Args           []int
	Budget         int64
	MaxPaths       int
	Timeout        time.Duration
	Expect         string // "" (no violation expected) or "violation" for vacuity twins
	QueryTimeoutMs int
}

func (j *Job) Name() string {
	var a []string
	for _, x := range j.Args {
		a = append(a, fmt.Sprint(x))
	}
	return fmt.Sprintf("%s:%s.%s(%s)", j.Loaded.Module, shortPkg(j.Pkg), j.Func, strings.Join(a, ","))
}

func shortPkg(p string) string {
	p = strings.TrimPrefix(p, modV2Path+"/")
	p = strings.TrimPrefix(p, modRootPath+"/")
	return p
}

type item struct {
	inputs []uint64
	bound  int
	expect []bool
	exclAt int      // index of the concretize decision being enumerated, or -1
	excl   []uint64 // values already explored there
}

// Finding is a run whose outcome is a violation, an escaped panic or an
// exhausted budget.
type Finding struct {
	Job       *Job
	Outcome   string
	Msg       string
	PanicSite string
	Inputs    []uint64
	Labels    []string
	TapePath  string
	Known     string // matching known-finding id, if any
	Replayed  string // native outcome
	ReplayMsg string
}

// JobResult aggregates one exploration.
type JobResult struct {
	Job             *Job
	Paths           int
	ByOutcome       map[string]int
	Queries         int
	Sat             int
	Unsat           int
	Unknown         int
	SolverErrors    int
	SolverTime      time.Duration
	Divergences     int
	Steps           int64
	Decisions       int
	Findings        []*Finding
	EngineErrors    []string
	engineErrorRuns int
	Covers          map[string]int
	Calls           map[string]int
	Externals       map[string]int
	Samples         []map[string]interface{}
	Exhausted       bool // every branch side explored or refuted
	Capped          string
	Wall            time.Duration
	Tapes           [][]uint64 // a sample of input vectors for differential validation
	TapeOutcomes    []string
	TapeObserved    []string
	Recovered       int
	RecoveredSites  map[string]int
	TriedSites      map[string]int
}

type explorer struct {
	job        *Job
	fn         *ssa.Function
	mu         sync.Mutex
	cond       *sync.Cond
	stack      []*item
	active     int
	res        *JobResult
	stop       bool
	started    time.Time
	solverKind string
}

func explore(job *Job, workers int, solverKind string) *JobResult {
	fn := job.Loaded.Prog.Lookup(job.Pkg, job.Func)
	res := &JobResult{Job: job, ByOutcome: map[string]int{}, Covers: map[string]int{}, Calls: map[string]int{}, Externals: map[string]int{}, RecoveredSites: map[string]int{}, TriedSites: map[string]int{}}
	if fn == nil {
		res.EngineErrors = append(res.EngineErrors, fmt.Sprintf("harness function %s.%s not found", job.Pkg, job.Func))
		return res
	}
	e := &explorer{job: job, fn: fn, res: res, started: time.Now(), solverKind: solverKind}
	e.cond = sync.NewCond(&e.mu)
	e.stack = []*item{{exclAt: -1}}
	if os.Getenv("GOSYM_PROGRESS") != "" {
		go func() {
			for {
				time.Sleep(5 * time.Second)
				e.mu.Lock()
				fmt.Fprintf(os.Stderr, "progress %s: paths=%d stack=%d active=%d outcomes=%v\n", job.Name(), res.Paths, len(e.stack), e.active, res.ByOutcome)
				stop := e.stop || (len(e.stack) == 0 && e.active == 0)
				e.mu.Unlock()
				if stop {
					return
				}
			}
		}()
	}
	var wg sync.WaitGroup
	for w := 0; w < workers; w++ {
		wg.Add(1)
		go func(w int) {
			defer wg.Done()
			e.worker(w)
		}(w)
	}
	wg.Wait()
	res.Wall = time.Since(e.started)
	res.Exhausted = res.Capped == "" && res.Unknown == 0 && res.SolverErrors == 0 && res.Divergences == 0 && len(res.EngineErrors) == 0
	return res
}

func (e *explorer) pop() *item {
	e.mu.Lock()
	defer e.mu.Unlock()
	for {
		if e.stop {
			return nil
		}
		if n := len(e.stack); n > 0 {
			it := e.stack[n-1]
			e.stack = e.stack[:n-1]
			e.active++
			return it
		}
		if e.active == 0 {
			e.cond.Broadcast()
			return nil
		}
		e.cond.Wait()
	}
}

func (e *explorer) done(children []*item) {
	e.mu.Lock()
	e.stack = append(e.stack, children...)
	e.active--
	e.cond.Broadcast()
	e.mu.Unlock()
}

func (e *explorer) worker(w int) {
	qt := 10000
	if e.job.QueryTimeoutMs > 0 {
		qt = e.job.QueryTimeoutMs
	}
	solver, err := smt.Start(e.solverKind, qt)
	if err != nil {
		e.mu.Lock()
		e.res.EngineErrors = append(e.res.EngineErrors, "cannot start solver: "+err.Error())
		e.stop = true
		e.cond.Broadcast()
		e.mu.Unlock()
		return
	}
	if p := os.Getenv("GOSYM_SMTLOG"); p != "" && w == 0 {
		f, _ := os.Create(p)
		solver.Log = f
	}
	defer func() {
		e.mu.Lock()
		e.res.Queries += solver.Queries
		e.res.Sat += solver.Sat
		e.res.Unsat += solver.Unsat
		e.res.Unknown += solver.Unknown
		e.res.SolverErrors += solver.Errors
		e.res.SolverTime += solver.Elapsed
		e.mu.Unlock()
		solver.Close()
	}()
	for {
		it := e.pop()
		if it == nil {
			return
		}
		children := e.runOne(it, solver)
		e.done(children)
	}
}

func (e *explorer) runOne(it *item, solver *smt.Solver) []*item {
	job := e.job
	r := job.Loaded.Prog.Run(e.fn, job.Args, interp.RunConfig{Inputs: it.inputs, Budget: job.Budget})

	if os.Getenv("GOSYM_DEBUG") != "" {
		fmt.Fprintf(os.Stderr, "RUN inputs=%v bound=%d outcome=%s %s\n", it.inputs, it.bound, r.Outcome, r.Msg)
		for k, br := range r.Trace {
			fmt.Fprintf(os.Stderr, "  [%d] %v kind=%d %s  @%s\n", k, br.Taken, br.Kind, br.Cond, br.Site)
		}
	}
	e.mu.Lock()
	res := e.res
	res.Paths++
	res.ByOutcome[r.Outcome.String()]++
	res.Steps += r.Steps
	res.Decisions += len(r.Trace)
	res.Recovered += r.Recovered
	for _, s := range r.RecoveredSites {
		res.RecoveredSites[s]++
	}
	for _, s := range r.TriedSites {
		res.TriedSites[s]++
	}
	for k, v := range r.Covers {
		res.Covers[k] += v
	}
	for k, v := range r.Calls {
		res.Calls[k] += v
	}
	for k, v := range r.Externals {
		res.Externals[k] += v
	}
	inputs := make([]uint64, len(r.Vars))
	labels := make([]string, len(r.Vars))
	for k, v := range r.Vars {
		inputs[k] = v.Value
		labels[k] = v.Label
	}
	if len(res.Samples) < 12 || (r.Outcome != interp.OK && r.Outcome != interp.AssumeFailed && len(res.Samples) < 40) {
		res.Samples = append(res.Samples, map[string]interface{}{
			"inputs": renderInputs(inputs, labels), "outcome": r.Outcome.String(), "msg": trunc(r.Msg, 200), "decisions": len(r.Trace),
		})
	}
	// (a data race has no forced-schedule native counterpart: see raceReplay)
	isRace := r.Outcome == interp.Violation && strings.HasPrefix(r.Msg, "data race:")
	if r.Outcome != interp.EngineError && r.Outcome != interp.Budget && !isRace && (len(res.Tapes) < 400) && (res.Paths%7 == 1 || res.Paths < 40) {
		res.Tapes = append(res.Tapes, inputs)
		res.TapeOutcomes = append(res.TapeOutcomes, r.Outcome.String())
		res.TapeObserved = append(res.TapeObserved, strings.Join(r.Observed, ";"))
	}
	switch r.Outcome {
	case interp.Violation, interp.EscapedPanic, interp.Budget:
		site := r.PanicSite
		if site == "" && len(r.TriedSites) > 0 {
			site = r.TriedSites[len(r.TriedSites)-1]
		}
		res.Findings = append(res.Findings, &Finding{Job: job, Outcome: r.Outcome.String(), Msg: r.Msg, PanicSite: site, Inputs: inputs, Labels: labels})
	case interp.EngineError:
		if len(res.EngineErrors) < 20 {
			res.EngineErrors = append(res.EngineErrors, fmt.Sprintf("%s inputs=%v: %s\n%s", job.Name(), inputs, r.Msg, trunc(r.Stack, 3000)))
		}
		// the job cannot be decided any more: do not spend hours finding that out again and again
		res.engineErrorRuns++
		if res.engineErrorRuns >= 8 && res.Capped == "" {
			res.Capped = "stopped after repeated engine errors"
			e.stop = true
			e.cond.Broadcast()
		}
	}
	if job.MaxPaths > 0 && res.Paths >= job.MaxPaths && res.Capped == "" {
		res.Capped = fmt.Sprintf("path cap %d reached", job.MaxPaths)
		e.stop = true
		e.cond.Broadcast()
	}
	if job.Timeout > 0 && time.Since(e.started) > job.Timeout && res.Capped == "" {
		res.Capped = fmt.Sprintf("time cap %s reached", job.Timeout)
		e.stop = true
		e.cond.Broadcast()
	}
	// divergence check
	diverged := false
	for k := 0; k < it.bound; k++ {
		if k >= len(r.Trace) || r.Trace[k].Taken != it.expect[k] {
			diverged = true
			break
		}
	}
	if diverged {
		res.Divergences++
		if len(res.EngineErrors) < 20 {
			res.EngineErrors = append(res.EngineErrors, fmt.Sprintf("%s: path diverged from its predicted prefix (bound %d, trace %d) inputs=%v", job.Name(), it.bound, len(r.Trace), inputs))
		}
	}
	e.mu.Unlock()
	if diverged || r.Outcome == interp.EngineError {
		return nil
	}

	// Ask the solver for the other side of every decision past the bound.
	// Each query contains only the path constraints that (transitively) share
	// input variables with the negated decision (constraint independence);
	// the remaining inputs keep their current values, which already satisfy
	// the rest of the path condition. Answers are cached across paths.
	var children []*item
	sess := &session{solver: solver, em: smt.NewEmitter()}
	defer sess.close()
	sl := newSlicer(len(r.Vars))
	vars := make([]*smt.Term, len(r.Vars))
	for k, v := range r.Vars {
		vars[k] = v.Term
	}
	child := func(model map[int32]uint64) []uint64 {
		in := make([]uint64, len(inputs))
		copy(in, inputs)
		for vi, val := range model {
			in[vi] = val
		}
		return in
	}
	prefix := func(k int) []bool {
		exp := make([]bool, k)
		for q := 0; q < k; q++ {
			exp[q] = r.Trace[q].Taken
		}
		return exp
	}
	for k, br := range r.Trace {
		this := literal{t: br.Cond, pos: br.Taken}
		if br.Kind == interp.BrConcretize {
			// cond is (= term const); enumerate other values of term
			var excl []uint64
			if it.exclAt == k {
				excl = it.excl
				for _, c := range excl {
					sl.add(literal{t: smt.App("=", smt.Bool, br.Cond.Args[0], likeConst(br.Cond.Args[1], c)), pos: false})
				}
			}
			if k >= it.bound {
				result, model := e.query(sess, sl, literal{t: br.Cond, pos: false}, vars)
				if result == smt.Sat {
					ne := append(append([]uint64{}, excl...), constBits(br.Cond.Args[1]))
					children = append(children, &item{inputs: child(model), bound: k, expect: prefix(k), exclAt: k, excl: ne})
				}
			}
			sl.add(this)
			continue
		}
		if k >= it.bound && negatable(br) {
			result, model := e.query(sess, sl, literal{t: br.Cond, pos: !br.Taken}, vars)
			if result == smt.Sat {
				exp := append(prefix(k), !br.Taken)
				children = append(children, &item{inputs: child(model), bound: k + 1, expect: exp, exclAt: -1})
			}
		}
		sl.add(this)
	}
	return children
}

// literal is a path-condition conjunct.
type literal struct {
	t   *smt.Term
	pos bool
}

func (l literal) key() [2]uint64 {
	if l.pos {
		return [2]uint64{l.t.H1, l.t.H2}
	}
	return [2]uint64{^l.t.H1, l.t.H2 + 0x5851F42D4C957F2D}
}

// slicer groups the literals asserted so far into independent components
// (union-find over input-variable indices).
type slicer struct {
	parent []int32
	lits   map[int32][]literal // by root
}

func newSlicer(n int) *slicer {
	s := &slicer{parent: make([]int32, n), lits: map[int32][]literal{}}
	for i := range s.parent {
		s.parent[i] = int32(i)
	}
	return s
}

func (s *slicer) find(x int32) int32 {
	for s.parent[x] != x {
		s.parent[x] = s.parent[s.parent[x]]
		x = s.parent[x]
	}
	return x
}

func (s *slicer) add(l literal) {
	vs := l.t.Vars
	if len(vs) == 0 {
		return
	}
	root := s.find(vs[0])
	for _, v := range vs[1:] {
		r2 := s.find(v)
		if r2 == root {
			continue
		}
		// merge smaller list into larger
		if len(s.lits[r2]) > len(s.lits[root]) {
			root, r2 = r2, root
		}
		s.parent[r2] = root
		s.lits[root] = append(s.lits[root], s.lits[r2]...)
		delete(s.lits, r2)
	}
	s.lits[root] = append(s.lits[root], l)
}

// slice returns the literals sharing variables (transitively) with t.
func (s *slicer) slice(t *smt.Term) []literal {
	var out []literal
	seen := map[int32]bool{}
	for _, v := range t.Vars {
		r := s.find(v)
		if seen[r] {
			continue
		}
		seen[r] = true
		out = append(out, s.lits[r]...)
	}
	return out
}

type cacheEntry struct {
	res   smt.Result
	model map[int32]uint64
}

var (
	queryCache   sync.Map // [2]uint64 -> cacheEntry
	cacheHits    int64
	cacheMisses  int64
	trivialUnsat int64
)

// session is the solver context of one run: definitions are sent lazily.
type session struct {
	solver *smt.Solver
	em     *smt.Emitter
	open   bool
	gen    int
}

func (s *session) ensure() {
	if s.open && s.gen != s.solver.Generation {
		// solver was restarted after a hard timeout: definitions are gone
		s.open = false
		s.em = smt.NewEmitter()
	}
	if !s.open {
		s.solver.SendRaw("(push)\n")
		s.open = true
		s.gen = s.solver.Generation
	}
}

func (s *session) close() {
	if s.open && s.gen == s.solver.Generation {
		s.solver.SendRaw("(pop)\n")
	}
}

// query decides slice(neg) AND neg.
func (e *explorer) query(sess *session, sl *slicer, neg literal, vars []*smt.Term) (smt.Result, map[int32]uint64) {
	lits := sl.slice(neg.t)
	// dedupe, detect the syntactic contradiction, build the cache key
	nk := neg.key()
	opp := literal{t: neg.t, pos: !neg.pos}.key()
	seen := map[[2]uint64]bool{}
	uniq := lits[:0:0]
	for _, l := range lits {
		k := l.key()
		if k == opp {
			atomic.AddInt64(&trivialUnsat, 1)
			return smt.Unsat, nil
		}
		if seen[k] || k == nk {
			continue
		}
		seen[k] = true
		uniq = append(uniq, l)
	}
	keys := make([][2]uint64, 0, len(uniq)+1)
	for _, l := range uniq {
		keys = append(keys, l.key())
	}
	sort.Slice(keys, func(a, b int) bool {
		if keys[a][0] != keys[b][0] {
			return keys[a][0] < keys[b][0]
		}
		return keys[a][1] < keys[b][1]
	})
	keys = append(keys, nk)
	var ck [2]uint64
	ck[0], ck[1] = 14695981039346656037, 0x9E3779B97F4A7C15
	for _, k := range keys {
		ck[0] = (ck[0] ^ k[0]) * 1099511628211
		ck[0] ^= ck[0] >> 31
		ck[1] = (ck[1]+k[1])*0xBF58476D1CE4E5B9 + 0x2545F4914F6CDD1D
		ck[1] ^= ck[1] >> 29
	}
	if v, ok := queryCache.Load(ck); ok {
		atomic.AddInt64(&cacheHits, 1)
		ce := v.(cacheEntry)
		return ce.res, ce.model
	}
	atomic.AddInt64(&cacheMisses, 1)

	sess.ensure()
	var sb strings.Builder
	var body strings.Builder
	varSet := map[int32]bool{}
	emit := func(l literal) {
		ref := sess.em.Ref(l.t)
		if l.pos {
			body.WriteString("(assert " + ref + ")\n")
		} else {
			body.WriteString("(assert (not " + ref + "))\n")
		}
		for _, v := range l.t.Vars {
			varSet[v] = true
		}
	}
	for _, l := range uniq {
		emit(l)
	}
	emit(neg)
	sb.WriteString(sess.em.Flush())
	sb.WriteString("(push)\n")
	sb.WriteString(body.String())
	var qvars []*smt.Term
	for v := range varSet {
		qvars = append(qvars, vars[v])
	}
	sort.Slice(qvars, func(a, b int) bool { return qvars[a].VarIdx < qvars[b].VarIdx })
	result, model, err := sess.solver.Check(sb.String(), qvars)
	if sess.gen == sess.solver.Generation {
		sess.solver.SendRaw("(pop)\n")
	}
	if err != nil {
		e.noteSolverErr(err)
		return smt.Unknown, nil
	}
	ce := cacheEntry{res: result}
	if result == smt.Sat {
		ce.model = map[int32]uint64{}
		for _, v := range qvars {
			ce.model[int32(v.VarIdx)] = model[v.Name]
		}
	}
	if result != smt.Unknown {
		queryCache.Store(ck, ce)
	}
	return ce.res, ce.model
}

// likeConst builds a constant of the same shape as like with other bits.
func likeConst(like *smt.Term, bits uint64) *smt.Term {
	if like.Op == "const" {
		return smt.Const(like.S, bits)
	}
	return smt.App(like.Op, like.S, smt.Const(like.Args[0].S, bits))
}

func (e *explorer) noteSolverErr(err error) {
	e.mu.Lock()
	if len(e.res.EngineErrors) < 20 {
		e.res.EngineErrors = append(e.res.EngineErrors, "solver: "+err.Error())
	}
	e.mu.Unlock()
}

// constBits extracts the bit pattern of a constant term built by the engine
// (a BV constant, or to_fp of one).
func constBits(t *smt.Term) uint64 {
	if t.Op == "const" {
		return t.Val
	}
	if len(t.Args) == 1 && t.Args[0].Op == "const" {
		return t.Args[0].Val
	}
	panic("constBits: not a constant: " + t.String())
}

func negatable(br interp.Branch) bool {
	switch br.Kind {
	case interp.BrAssume:
		return !br.Taken
	}
	return true
}

func trunc(s string, n int) string {
	if len(s) > n {
		return s[:n] + "..."
	}
	return s
}

// renderInputs groups consecutive byte inputs into strings for readability.
func renderInputs(in []uint64, labels []string) []string {
	var out []string
	for k := 0; k < len(in); {
		if labels[k] == "byte" {
			j := k
			var b []byte
			for j < len(in) && labels[j] == "byte" {
				b = append(b, byte(in[j]))
				j++
			}
			out = append(out, fmt.Sprintf("bytes %q", b))
			k = j
			continue
		}
		out = append(out, fmt.Sprintf("%s %d", labels[k], in[k]))
		k++
	}
	return out
}

func sortedKeys(m map[string]int) []string {
	var ks []string
	for k := range m {
		ks = append(ks, k)
	}
	sort.Strings(ks)
	return ks
}
