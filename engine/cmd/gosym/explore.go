package main

import (
	"fmt"
	"os"
	"sort"
	"strings"
	"sync"
	"time"

	"golang.org/x/tools/go/ssa"

	"gosym/interp"
	"gosym/smt"
)

// Job is one harness function at one concrete argument vector.
type Job struct {
	Loaded   *Loaded
	Pkg      string // import path
	Func     string
	Args     []int
	Budget   int64
	MaxPaths int
	Timeout  time.Duration
	Expect   string // "" (no violation expected) or "violation" for vacuity twins
}

func (j *Job) Name() string {
	var a []string
	for _, x := range j.Args {
		a = append(a, fmt.Sprint(x))
	}
	return fmt.Sprintf("%s:%s.%s(%s)", j.Loaded.Module, shortPkg(j.Pkg), j.Func, strings.Join(a, ","))
}

func shortPkg(p string) string {
	p = strings.TrimPrefix(p, modV2Path+"/")
	p = strings.TrimPrefix(p, modRootPath+"/")
	return p
}

type item struct {
	inputs []uint64
	bound  int
	expect []bool
	exclAt int      // index of the concretize decision being enumerated, or -1
	excl   []uint64 // values already explored there
}

// Finding is a run whose outcome is a violation, an escaped panic or an
// exhausted budget.
type Finding struct {
	Job       *Job
	Outcome   string
	Msg       string
	PanicSite string
	Inputs    []uint64
	Labels    []string
	TapePath  string
	Known     string // matching known-finding id, if any
	Replayed  string // native outcome
	ReplayMsg string
}

// JobResult aggregates one exploration.
type JobResult struct {
	Job            *Job
	Paths          int
	ByOutcome      map[string]int
	Queries        int
	Sat            int
	Unsat          int
	Unknown        int
	SolverErrors   int
	SolverTime     time.Duration
	Divergences    int
	Steps          int64
	Decisions      int
	Findings       []*Finding
	EngineErrors   []string
	Covers         map[string]int
	Calls          map[string]int
	Externals      map[string]int
	Samples        []map[string]interface{}
	Exhausted      bool // every branch side explored or refuted
	Capped         string
	Wall           time.Duration
	Tapes          [][]uint64 // a sample of input vectors for differential validation
	TapeOutcomes   []string
	TapeObserved   []string
	Recovered      int
	RecoveredSites map[string]int
	TriedSites     map[string]int
}

type explorer struct {
	job        *Job
	fn         *ssa.Function
	mu         sync.Mutex
	cond       *sync.Cond
	stack      []*item
	active     int
	res        *JobResult
	stop       bool
	started    time.Time
	solverKind string
}

func explore(job *Job, workers int, solverKind string) *JobResult {
	fn := job.Loaded.Prog.Lookup(job.Pkg, job.Func)
	res := &JobResult{Job: job, ByOutcome: map[string]int{}, Covers: map[string]int{}, Calls: map[string]int{}, Externals: map[string]int{}, RecoveredSites: map[string]int{}, TriedSites: map[string]int{}}
	if fn == nil {
		res.EngineErrors = append(res.EngineErrors, fmt.Sprintf("harness function %s.%s not found", job.Pkg, job.Func))
		return res
	}
	e := &explorer{job: job, fn: fn, res: res, started: time.Now(), solverKind: solverKind}
	e.cond = sync.NewCond(&e.mu)
	e.stack = []*item{{exclAt: -1}}
	var wg sync.WaitGroup
	for w := 0; w < workers; w++ {
		wg.Add(1)
		go func(w int) {
			defer wg.Done()
			e.worker(w)
		}(w)
	}
	wg.Wait()
	res.Wall = time.Since(e.started)
	res.Exhausted = res.Capped == "" && res.Unknown == 0 && res.SolverErrors == 0 && res.Divergences == 0 && len(res.EngineErrors) == 0
	return res
}

func (e *explorer) pop() *item {
	e.mu.Lock()
	defer e.mu.Unlock()
	for {
		if e.stop {
			return nil
		}
		if n := len(e.stack); n > 0 {
			it := e.stack[n-1]
			e.stack = e.stack[:n-1]
			e.active++
			return it
		}
		if e.active == 0 {
			e.cond.Broadcast()
			return nil
		}
		e.cond.Wait()
	}
}

func (e *explorer) done(children []*item) {
	e.mu.Lock()
	e.stack = append(e.stack, children...)
	e.active--
	e.cond.Broadcast()
	e.mu.Unlock()
}

func (e *explorer) worker(w int) {
	solver, err := smt.Start(e.solverKind, 10000)
	if err != nil {
		e.mu.Lock()
		e.res.EngineErrors = append(e.res.EngineErrors, "cannot start solver: "+err.Error())
		e.stop = true
		e.cond.Broadcast()
		e.mu.Unlock()
		return
	}
	if p := os.Getenv("GOSYM_SMTLOG"); p != "" && w == 0 {
		f, _ := os.Create(p)
		solver.Log = f
	}
	defer func() {
		e.mu.Lock()
		e.res.Queries += solver.Queries
		e.res.Sat += solver.Sat
		e.res.Unsat += solver.Unsat
		e.res.Unknown += solver.Unknown
		e.res.SolverErrors += solver.Errors
		e.res.SolverTime += solver.Elapsed
		e.mu.Unlock()
		solver.Close()
	}()
	for {
		it := e.pop()
		if it == nil {
			return
		}
		children := e.runOne(it, solver)
		e.done(children)
	}
}

func (e *explorer) runOne(it *item, solver *smt.Solver) []*item {
	job := e.job
	r := job.Loaded.Prog.Run(e.fn, job.Args, interp.RunConfig{Inputs: it.inputs, Budget: job.Budget})

	if os.Getenv("GOSYM_DEBUG") != "" {
		fmt.Fprintf(os.Stderr, "RUN inputs=%v bound=%d outcome=%s %s\n", it.inputs, it.bound, r.Outcome, r.Msg)
		for k, br := range r.Trace {
			fmt.Fprintf(os.Stderr, "  [%d] %v kind=%d %s  @%s\n", k, br.Taken, br.Kind, br.Cond, br.Site)
		}
	}
	e.mu.Lock()
	res := e.res
	res.Paths++
	res.ByOutcome[r.Outcome.String()]++
	res.Steps += r.Steps
	res.Decisions += len(r.Trace)
	res.Recovered += r.Recovered
	for _, s := range r.RecoveredSites {
		res.RecoveredSites[s]++
	}
	for _, s := range r.TriedSites {
		res.TriedSites[s]++
	}
	for k, v := range r.Covers {
		res.Covers[k] += v
	}
	for k, v := range r.Calls {
		res.Calls[k] += v
	}
	for k, v := range r.Externals {
		res.Externals[k] += v
	}
	inputs := make([]uint64, len(r.Vars))
	labels := make([]string, len(r.Vars))
	for k, v := range r.Vars {
		inputs[k] = v.Value
		labels[k] = v.Label
	}
	if len(res.Samples) < 12 || (r.Outcome != interp.OK && r.Outcome != interp.AssumeFailed && len(res.Samples) < 40) {
		res.Samples = append(res.Samples, map[string]interface{}{
			"inputs": renderInputs(inputs, labels), "outcome": r.Outcome.String(), "msg": trunc(r.Msg, 200), "decisions": len(r.Trace),
		})
	}
	if r.Outcome != interp.EngineError && r.Outcome != interp.Budget && (len(res.Tapes) < 400) && (res.Paths%7 == 1 || res.Paths < 40) {
		res.Tapes = append(res.Tapes, inputs)
		res.TapeOutcomes = append(res.TapeOutcomes, r.Outcome.String())
		res.TapeObserved = append(res.TapeObserved, strings.Join(r.Observed, ";"))
	}
	switch r.Outcome {
	case interp.Violation, interp.EscapedPanic, interp.Budget:
		res.Findings = append(res.Findings, &Finding{Job: job, Outcome: r.Outcome.String(), Msg: r.Msg, PanicSite: r.PanicSite, Inputs: inputs, Labels: labels})
	case interp.EngineError:
		if len(res.EngineErrors) < 20 {
			res.EngineErrors = append(res.EngineErrors, fmt.Sprintf("%s inputs=%v: %s\n%s", job.Name(), inputs, r.Msg, trunc(r.Stack, 3000)))
		}
	}
	if job.MaxPaths > 0 && res.Paths >= job.MaxPaths && res.Capped == "" {
		res.Capped = fmt.Sprintf("path cap %d reached", job.MaxPaths)
		e.stop = true
		e.cond.Broadcast()
	}
	if job.Timeout > 0 && time.Since(e.started) > job.Timeout && res.Capped == "" {
		res.Capped = fmt.Sprintf("time cap %s reached", job.Timeout)
		e.stop = true
		e.cond.Broadcast()
	}
	// divergence check
	diverged := false
	for k := 0; k < it.bound; k++ {
		if k >= len(r.Trace) || r.Trace[k].Taken != it.expect[k] {
			diverged = true
			break
		}
	}
	if diverged {
		res.Divergences++
		if len(res.EngineErrors) < 20 {
			res.EngineErrors = append(res.EngineErrors, fmt.Sprintf("%s: path diverged from its predicted prefix (bound %d, trace %d) inputs=%v", job.Name(), it.bound, len(r.Trace), inputs))
		}
	}
	e.mu.Unlock()
	if diverged || r.Outcome == interp.EngineError {
		return nil
	}

	// Ask the solver for the other side of every decision past the bound.
	var children []*item
	em := smt.NewEmitter()
	vars := make([]*smt.Term, len(r.Vars))
	for k, v := range r.Vars {
		vars[k] = v.Term
		em.Ref(v.Term)
	}
	solver.SendRaw("(push)\n")
	defer solver.SendRaw("(pop)\n")
	pending := em.Flush()
	for k, br := range r.Trace {
		ref := em.Ref(br.Cond)
		pending += em.Flush()
		lit, neg := ref, "(not "+ref+")"
		if !br.Taken {
			lit, neg = neg, lit
		}
		if br.Kind == interp.BrConcretize {
			// cond is (= term const); enumerate other values of term
			tref := em.Ref(br.Cond.Args[0])
			pending += em.Flush()
			var excl []uint64
			if it.exclAt == k {
				excl = it.excl
				for _, c := range excl {
					pending += "(assert (not (= " + tref + " " + constLit(br.Cond.Args[1], c) + ")))\n"
				}
			}
			if k >= it.bound {
				cur := constBits(br.Cond.Args[1])
				text := pending + "(push)\n(assert " + neg + ")\n"
				pending = ""
				result, model, err := solver.Check(text, vars)
				solver.SendRaw("(pop)\n")
				if err != nil {
					e.noteSolverErr(err)
				}
				if result == smt.Sat {
					in := make([]uint64, len(vars))
					for vi, v := range vars {
						in[vi] = model[v.Name]
					}
					exp := make([]bool, k)
					for q := 0; q < k; q++ {
						exp[q] = r.Trace[q].Taken
					}
					ne := append(append([]uint64{}, excl...), cur)
					children = append(children, &item{inputs: in, bound: k, expect: exp, exclAt: k, excl: ne})
				}
			}
			pending += "(assert " + lit + ")\n"
			continue
		}
		if k >= it.bound && negatable(br) {
			text := pending + "(push)\n(assert " + neg + ")\n"
			pending = ""
			result, model, err := solver.Check(text, vars)
			solver.SendRaw("(pop)\n")
			if err != nil {
				e.noteSolverErr(err)
			}
			if result == smt.Sat {
				in := make([]uint64, len(vars))
				for vi, v := range vars {
					in[vi] = model[v.Name]
				}
				exp := make([]bool, k+1)
				for q := 0; q < k; q++ {
					exp[q] = r.Trace[q].Taken
				}
				exp[k] = !br.Taken
				children = append(children, &item{inputs: in, bound: k + 1, expect: exp, exclAt: -1})
			}
		}
		pending += "(assert " + lit + ")\n"
	}
	return children
}

func (e *explorer) noteSolverErr(err error) {
	e.mu.Lock()
	if len(e.res.EngineErrors) < 20 {
		e.res.EngineErrors = append(e.res.EngineErrors, "solver: "+err.Error())
	}
	e.mu.Unlock()
}

// constBits extracts the bit pattern of a constant term built by the engine
// (a BV constant, or to_fp of one).
func constBits(t *smt.Term) uint64 {
	if t.Op == "const" {
		return t.Val
	}
	if len(t.Args) == 1 && t.Args[0].Op == "const" {
		return t.Args[0].Val
	}
	panic("constBits: not a constant: " + t.String())
}

// constLit renders a constant of the same shape as like with other bits.
func constLit(like *smt.Term, bits uint64) string {
	if like.Op == "const" {
		return smt.Const(like.S, bits).String()
	}
	return "(" + like.Op + " " + smt.Const(like.Args[0].S, bits).String() + ")"
}

func negatable(br interp.Branch) bool {
	switch br.Kind {
	case interp.BrAssume:
		return !br.Taken
	}
	return true
}

func trunc(s string, n int) string {
	if len(s) > n {
		return s[:n] + "..."
	}
	return s
}

// renderInputs groups consecutive byte inputs into strings for readability.
func renderInputs(in []uint64, labels []string) []string {
	var out []string
	for k := 0; k < len(in); {
		if labels[k] == "byte" {
			j := k
			var b []byte
			for j < len(in) && labels[j] == "byte" {
				b = append(b, byte(in[j]))
				j++
			}
			out = append(out, fmt.Sprintf("bytes %q", b))
			k = j
			continue
		}
		out = append(out, fmt.Sprintf("%s %d", labels[k], in[k]))
		k++
	}
	return out
}

func sortedKeys(m map[string]int) []string {
	var ks []string
	for k := range m {
		ks = append(ks, k)
	}
	sort.Strings(ks)
	return ks
}
