package main

func cmdCheck(args []string) int { return 2 }

func generateBindings(module, scratch string) (map[string]string, error) { return nil, nil }
