package main

import (
	"encoding/json"
	"flag"
	"fmt"
	"os"
	"path/filepath"
	"regexp"
	"runtime"
	"sort"
	"strconv"
	"strings"
	"time"
)

// CheckSpec is the per-property entry of checks.json.
type CheckSpec struct {
	Solver      string    `json:"solver"` // overrides the default solver for this property
	Level       string    `json:"level"`
	Explanation string    `json:"explanation"`
	Assumptions []string  `json:"assumptions"`
	Jobs        []JobSpec `json:"jobs"`
	Instrument  []string  `json:"instrument"` // module-relative files compiled against zzsync instead of sync
}

type JobSpec struct {
	Module         string   `json:"module"` // "v2", "root" or "both"
	Pkg            string   `json:"pkg"`
	Func           string   `json:"func"`
	Quick          string   `json:"quick"`
	Thorough       string   `json:"thorough"`
	Twin           bool     `json:"twin"`   // vacuity witness: must produce a violation
	Covers         []string `json:"covers"` // labels that must be reached
	MaxPaths       int      `json:"max_paths"`
	TimeoutS       int      `json:"timeout_s"`
	Budget         int64    `json:"budget"`
	Solver         string   `json:"solver"`
	QueryTimeoutMs int      `json:"query_timeout_ms"`
	Gen            bool     `json:"gen"` // needs generated bindings
	BudgetIsHang   bool     `json:"budget_is_hang"`
}

type KnownFinding struct {
	ID          string `json:"id"`
	Property    string `json:"property"`
	Module      string `json:"module"`
	Harness     string `json:"harness_regex"`
	Msg         string `json:"msg_regex"`
	Site        string `json:"site_regex"`
	Description string `json:"description"`
}

type KnownFile struct {
	Findings []KnownFinding `json:"findings"`
	Fixed    []string       `json:"fixed"`
}

// expandArgs turns "0..3;1,2" into the cartesian product of argument vectors.
func expandArgs(spec string) ([][]int, error) {
	spec = strings.TrimSpace(spec)
	if spec == "" {
		return [][]int{{}}, nil
	}
	var dims [][]int
	for _, d := range strings.Split(spec, ";") {
		var vals []int
		for _, part := range strings.Split(d, ",") {
			part = strings.TrimSpace(part)
			if strings.Contains(part, "..") {
				ab := strings.SplitN(part, "..", 2)
				a, err1 := strconv.Atoi(ab[0])
				b, err2 := strconv.Atoi(ab[1])
				if err1 != nil || err2 != nil {
					return nil, fmt.Errorf("bad range %q", part)
				}
				for x := a; x <= b; x++ {
					vals = append(vals, x)
				}
			} else {
				x, err := strconv.Atoi(part)
				if err != nil {
					return nil, fmt.Errorf("bad value %q", part)
				}
				vals = append(vals, x)
			}
		}
		dims = append(dims, vals)
	}
	out := [][]int{{}}
	for _, d := range dims {
		var next [][]int
		for _, pre := range out {
			for _, v := range d {
				next = append(next, append(append([]int{}, pre...), v))
			}
		}
		out = next
	}
	return out, nil
}

var solverKindGlobal = "z3-new"

func cmdCheck(args []string) int {
	if len(args) < 1 {
		usage()
	}
	prop := args[0]
	fs := flag.NewFlagSet("check", flag.ExitOnError)
	tier := fs.String("tier", "", "quick or thorough")
	workers := fs.Int("workers", runtime.NumCPU(), "workers")
	only := fs.String("only", "", "regex: run only matching harness functions (no evidence written)")
	solverKind := fs.String("solver", "z3-new", "solver")
	verbose := fs.Bool("v", false, "verbose")
	fs.Parse(args[1:])
	solverKindGlobal = *solverKind
	if *tier == "" {
		*tier = os.Getenv("VERIF_TIER")
	}
	if *tier == "" {
		*tier = "quick"
	}
	seed := 0
	if s := os.Getenv("VERIF_SEED"); s != "" {
		seed, _ = strconv.Atoi(s)
	}
	t0 := time.Now()

	var specs map[string]CheckSpec
	b, err := os.ReadFile(filepath.Join(verifDir(), "checks.json"))
	if err != nil {
		fmt.Fprintln(os.Stderr, err)
		return 2
	}
	if err := json.Unmarshal(b, &specs); err != nil {
		fmt.Fprintln(os.Stderr, "checks.json:", err)
		return 2
	}
	spec, ok := specs[prop]
	if !ok {
		fmt.Fprintf(os.Stderr, "no check for %s\n", prop)
		return 2
	}
	if spec.Solver != "" {
		*solverKind = spec.Solver
		solverKindGlobal = spec.Solver
	}
	var known KnownFile
	if kb, err := os.ReadFile(filepath.Join(verifDir(), "known_findings.json")); err == nil {
		if err := json.Unmarshal(kb, &known); err != nil {
			fmt.Fprintln(os.Stderr, "known_findings.json:", err)
			return 2
		}
	}
	var onlyRe *regexp.Regexp
	if *only != "" {
		onlyRe = regexp.MustCompile(*only)
	}

	scratch, err := os.MkdirTemp("", "gosym-"+prop+"-")
	if err != nil {
		fmt.Fprintln(os.Stderr, err)
		return 2
	}
	defer func() {
		exec_chmod(scratch)
		os.RemoveAll(scratch)
	}()

	// expand module "both"
	var jobs []JobSpec
	for _, j := range spec.Jobs {
		if onlyRe != nil && !onlyRe.MatchString(j.Func) {
			continue
		}
		if j.Module == "both" {
			a, b := j, j
			a.Module, b.Module = "v2", "root"
			jobs = append(jobs, a, b)
		} else {
			jobs = append(jobs, j)
		}
	}
	instrumentFiles = spec.Instrument
	loaded := map[string]*Loaded{}
	needGen := map[string]bool{}
	for _, j := range jobs {
		if j.Gen {
			needGen[j.Module] = true
		}
	}
	broken := false
	var results []*JobResult
	var allFindings []*Finding
	replayDir := filepath.Join(verifDir(), "replays", prop)
	os.RemoveAll(replayDir)
	tracesValidated := 0
	var discrepancies []string
	var vacuous []string
	var inconclusive []string
	var loadSeconds float64

	for _, js := range jobs {
		l := loaded[js.Module]
		if l == nil {
			var extra map[string]string
			if needGen[js.Module] {
				extra, err = generateBindings(js.Module, scratch)
				if err != nil {
					if prop == "C13" && generatorRefusesDefaults(js.Module, scratch) {
						// the generator accepts the harness schemas without their
						// defaults and refuses them with: a well-formed default is
						// not applied
						os.MkdirAll(replayDir, 0o755)
						rp := filepath.Join(replayDir, "generator-refuses-default.txt")
						os.WriteFile(rp, []byte(fmt.Sprintf("the generator fails on schemas/vt.manifest.json and succeeds on the same schemas without defaultValue entries\n\n%v\n", err)), 0o644)
						fmt.Printf("VIOLATION property=%s replay=%s\n  the generator refuses a well-formed schema default (it generates the same schemas once every default is removed): %s\n", prop, rp, trunc(err.Error(), 600))
						return 1
					}
					fmt.Printf("BROKEN: bindings do not generate/compile for module %s: %v\n", js.Module, err)
					return 2
				}
			}
			l, err = loadModule(js.Module, scratch, extra, nil)
			if err != nil {
				fmt.Printf("BROKEN: cannot load module %s with harness overlay: %v\n", js.Module, err)
				return 2
			}
			loaded[js.Module] = l
			loadSeconds += l.LoadTime.Seconds()
		}
		argSpec := js.Quick
		if *tier == "thorough" && js.Thorough != "" {
			argSpec = js.Thorough
		}
		vectors, err := expandArgs(argSpec)
		if err != nil {
			fmt.Fprintln(os.Stderr, err)
			return 2
		}
		coverSeen := map[string]int{}
		twinViolations := 0
		for _, vec := range vectors {
			job := &Job{Loaded: l, Pkg: l.ModulePath + "/" + js.Pkg, Func: js.Func, Args: vec, Budget: js.Budget, MaxPaths: js.MaxPaths}
			if js.TimeoutS > 0 {
				job.Timeout = time.Duration(js.TimeoutS) * time.Second
			}
			if js.Twin {
				job.Expect = "violation"
			}
			sk := *solverKind
			if js.Solver != "" {
				sk = js.Solver
			}
			job.QueryTimeoutMs = js.QueryTimeoutMs
			res := explore(job, *workers, sk)
			results = append(results, res)
			if *verbose {
				printJobResult(res, false)
			} else {
				fmt.Printf("%s: paths=%d %v solver-queries=%d cache=%d/%d wall=%.1fs exhausted=%v %s\n", job.Name(), res.Paths, res.ByOutcome, res.Queries, cacheHits, cacheMisses, res.Wall.Seconds(), res.Exhausted, res.Capped)
			}
			for k, v := range res.Covers {
				coverSeen[k] += v
			}
			if len(res.EngineErrors) > 0 {
				broken = true
				for _, e := range res.EngineErrors {
					fmt.Printf("ENGINE-ERROR %s: %s\n", job.Name(), trunc(e, 6000))
				}
			}
			if res.Capped != "" || res.Unknown > 0 {
				inconclusive = append(inconclusive, fmt.Sprintf("%s: %s unknown=%d", job.Name(), res.Capped, res.Unknown))
			}
			if js.Twin {
				twinViolations += len(res.Findings)
				res.Findings = nil
			}
			allFindings = append(allFindings, res.Findings...)
		}
		if js.Twin && twinViolations == 0 {
			vacuous = append(vacuous, fmt.Sprintf("%s:%s.%s: reachability twin produced no violation", js.Module, js.Pkg, js.Func))
		}
		for _, c := range js.Covers {
			if coverSeen[c] == 0 {
				vacuous = append(vacuous, fmt.Sprintf("%s:%s.%s: cover point %q never reached", js.Module, js.Pkg, js.Func, c))
			}
		}
	}

	// ---- differential validation of the engine on a sample of explored inputs
	type batchKey struct{ module, pkg string }
	batches := map[batchKey][]TapeSpec{}
	expected := map[string][2]string{}
	nTapes := 0
	perJobCap := 40
	if *tier == "thorough" {
		perJobCap = 120
	}
	for _, res := range results {
		if res.Job.Expect != "" {
			continue
		}
		n := 0
		step := 1
		if len(res.Tapes) > perJobCap {
			step = len(res.Tapes) / perJobCap
		}
		for k := (seed % step); k < len(res.Tapes) && n < perJobCap; k += step {
			p := filepath.Join(scratch, "tapes", fmt.Sprintf("t%06d.json", nTapes))
			nTapes++
			ts := TapeSpec{Harness: res.Job.Func, Args: res.Job.Args, Tape: res.Tapes[k], Path: p}
			if err := writeTape(p, ts); err != nil {
				fmt.Fprintln(os.Stderr, err)
				return 2
			}
			bk := batchKey{res.Job.Loaded.Module, res.Job.Pkg}
			batches[bk] = append(batches[bk], ts)
			expected[p] = [2]string{res.TapeOutcomes[k], res.TapeObserved[k]}
			n++
		}
	}
	// ---- findings: dedupe by signature, write tapes, replay
	sigCount := map[string]int{}
	var reported []*Finding
	for _, f := range allFindings {
		sig := f.Job.Loaded.Module + "|" + f.Job.Func + "|" + f.Outcome + "|" + normMsg(f.Msg) + "|" + f.PanicSite
		sigCount[sig]++
		if sigCount[sig] > 2 {
			continue
		}
		name := fmt.Sprintf("%s-%s-%s-%d.json", f.Job.Loaded.Module, f.Job.Func, argTag(f.Job.Args), len(reported))
		f.TapePath = filepath.Join(replayDir, name)
		ts := TapeSpec{Harness: f.Job.Func, Args: f.Job.Args, Tape: f.Inputs, Path: f.TapePath}
		if err := writeTape(f.TapePath, ts); err != nil {
			fmt.Fprintln(os.Stderr, err)
			return 2
		}
		if !strings.HasPrefix(f.Msg, "data race:") {
			bk := batchKey{f.Job.Loaded.Module, f.Job.Pkg}
			batches[bk] = append(batches[bk], ts)
		}
		reported = append(reported, f)
	}
	native := map[string]NativeResult{}
	var bks []batchKey
	for bk := range batches {
		bks = append(bks, bk)
	}
	sort.Slice(bks, func(a, b int) bool { return bks[a].module+bks[a].pkg < bks[b].module+bks[b].pkg })
	for _, bk := range bks {
		res, out, err := nativeReplay(loaded[bk.module], bk.pkg, batches[bk], scratch)
		if err != nil {
			fmt.Printf("BROKEN: native replay failed for %s %s: %v\n", bk.module, bk.pkg, err)
			broken = true
			continue
		}
		_ = out
		for k, v := range res {
			native[k] = v
		}
	}
	for p, exp := range expected {
		nr, ok := native[p]
		if !ok {
			continue
		}
		tracesValidated++
		if !sameOutcome(exp[0], nr.Outcome) || exp[1] != nr.Observed {
			discrepancies = append(discrepancies, fmt.Sprintf("tape %s: engine %s [%s] vs native %s [%s] %s", tapeString(p), exp[0], exp[1], nr.Outcome, nr.Observed, trunc(nr.Msg, 200)))
		}
	}
	violations := 0
	knownSeen := map[string]string{}
	for _, f := range reported {
		if strings.HasPrefix(f.Msg, "data race:") {
			// cannot be reproduced by a forced schedule (the baton orders
			// everything): confirmed by the Go race detector on free-running threads
			ok, excerpt, err := raceReplay(f.Job.Loaded, f.Job.Pkg, TapeSpec{Harness: f.Job.Func, Args: f.Job.Args, Tape: f.Inputs, Path: f.TapePath}, f.Msg, scratch)
			if err != nil {
				fmt.Printf("BROKEN: race replay failed for %s: %v\n", f.Job.Name(), err)
				broken = true
				continue
			}
			if !ok {
				discrepancies = append(discrepancies, fmt.Sprintf("data race not confirmed by the Go race detector: %s (%s) tape=%s detector: %s", f.Job.Name(), trunc(f.Msg, 300), f.TapePath, excerpt))
				continue
			}
			native[f.TapePath] = NativeResult{Outcome: f.Outcome, Msg: "go test -race (free-running threads): " + excerpt}
		}
		nr, ok := native[f.TapePath]
		if !ok {
			discrepancies = append(discrepancies, "no native result for "+f.TapePath)
			continue
		}
		f.Replayed, f.ReplayMsg = nr.Outcome, nr.Msg
		if !sameOutcome(f.Outcome, nr.Outcome) {
			discrepancies = append(discrepancies, fmt.Sprintf("finding not reproduced natively: %s engine=%s (%s) native=%s (%s) tape=%s", f.Job.Name(), f.Outcome, trunc(f.Msg, 200), nr.Outcome, trunc(nr.Msg, 200), f.TapePath))
			continue
		}
		if kf := matchKnown(known.Findings, prop, f); kf != nil {
			f.Known = kf.ID
			if _, seen := knownSeen[kf.ID]; !seen {
				knownSeen[kf.ID] = fmt.Sprintf("%s (e.g. %s inputs=%v)", kf.Description, f.Job.Name(), renderInputs(f.Inputs, f.Labels))
			}
			continue
		}
		violations++
		fmt.Printf("VIOLATION property=%s replay=%s\n", prop, f.TapePath)
		fmt.Printf("  harness=%s outcome=%s msg=%s site=%s inputs=%v native=%s\n", f.Job.Name(), f.Outcome, trunc(f.Msg, 300), f.PanicSite, renderInputs(f.Inputs, f.Labels), trunc(nr.Msg, 200))
	}
	var kids []string
	for id := range knownSeen {
		kids = append(kids, id)
	}
	sort.Strings(kids)
	for _, id := range kids {
		fmt.Printf("KNOWN-FINDING: property=%s %s %s\n", prop, id, knownSeen[id])
	}
	for _, d := range discrepancies {
		fmt.Printf("ENGINE-DISCREPANCY: %s\n", d)
		broken = true
	}
	for _, v := range vacuous {
		fmt.Printf("VACUOUS: %s\n", v)
		broken = true
	}
	for _, s := range inconclusive {
		fmt.Printf("INCONCLUSIVE: %s\n", s)
	}

	if onlyRe == nil {
		if err := writeEvidence(prop, *tier, seed, spec, results, reported, tracesValidated, violations, knownSeen, inconclusive, loadSeconds, time.Since(t0)); err != nil {
			fmt.Fprintln(os.Stderr, "evidence:", err)
			return 2
		}
	}
	fmt.Printf("%s %s: jobs=%d violations=%d known=%d traces-validated=%d wall=%.0fs\n", prop, *tier, len(results), violations, len(knownSeen), tracesValidated, time.Since(t0).Seconds())
	if violations > 0 {
		return 1
	}
	if broken {
		return 2
	}
	return 0
}

func exec_chmod(dir string) {
	filepath.Walk(dir, func(p string, info os.FileInfo, err error) error {
		if err == nil {
			os.Chmod(p, info.Mode()|0o200)
		}
		return nil
	})
}

func tapeString(p string) string {
	b, err := os.ReadFile(p)
	if err != nil {
		return p
	}
	return trunc(string(b), 300)
}

func argTag(a []int) string {
	var s []string
	for _, x := range a {
		s = append(s, strconv.Itoa(x))
	}
	return strings.Join(s, "_")
}

var numRe = regexp.MustCompile(`[0-9]+`)

func normMsg(m string) string { return numRe.ReplaceAllString(trunc(m, 120), "N") }

func sameOutcome(engine, native string) bool {
	if engine == native {
		return true
	}
	if engine == "budget" && native == "hang" {
		return true
	}
	return false
}

func matchKnown(kfs []KnownFinding, prop string, f *Finding) *KnownFinding {
	for k := range kfs {
		kf := &kfs[k]
		if kf.Property != prop {
			continue
		}
		if kf.Module != "" && kf.Module != f.Job.Loaded.Module {
			continue
		}
		if kf.Harness != "" && !regexp.MustCompile(kf.Harness).MatchString(f.Job.Func) {
			continue
		}
		if kf.Msg != "" && !regexp.MustCompile(kf.Msg).MatchString(f.Msg) {
			continue
		}
		if kf.Site != "" && !regexp.MustCompile(kf.Site).MatchString(f.PanicSite) {
			continue
		}
		return kf
	}
	return nil
}

func writeEvidence(prop, tier string, seed int, spec CheckSpec, results []*JobResult, reported []*Finding, validated, violations int, known map[string]string, inconclusive []string, loadSeconds float64, wall time.Duration) error {
	states, transitions := 0, 0
	var queries, sat, unsat, unknown int
	var solverSec float64
	funcs := map[string]int{}
	exts := map[string]int{}
	var bounds []map[string]interface{}
	var samples []interface{}
	exhaustive := true
	covers := map[string]int{}
	for _, r := range results {
		states += r.Paths
		transitions += r.Decisions
		queries += r.Queries
		sat += r.Sat
		unsat += r.Unsat
		unknown += r.Unknown
		solverSec += r.SolverTime.Seconds()
		for k, v := range r.Calls {
			if strings.Contains(k, "PapaCharlie/go-restli") && !strings.Contains(k, "zzverif") {
				funcs[k] += v
			}
		}
		for k, v := range r.Externals {
			exts[k] += v
		}
		for k, v := range r.Covers {
			covers[k] += v
		}
		if !r.Exhausted {
			exhaustive = false
		}
		bounds = append(bounds, map[string]interface{}{
			"harness": r.Job.Name(), "paths": r.Paths, "outcomes": r.ByOutcome, "decisions": r.Decisions,
			"solver_queries": r.Queries, "exhausted": r.Exhausted, "capped": r.Capped, "wall_s": round1(r.Wall.Seconds()),
			"recovered_panics": r.Recovered,
		})
		for k, s := range r.Samples {
			if k < 3 {
				s["harness"] = r.Job.Name()
				samples = append(samples, s)
			}
		}
	}
	if len(samples) > 60 {
		samples = samples[:60]
	}
	var fnames []string
	for k := range funcs {
		fnames = append(fnames, k)
	}
	sort.Strings(fnames)
	var enames []string
	for k := range exts {
		enames = append(enames, k)
	}
	sort.Strings(enames)
	var kn []string
	for id, d := range known {
		kn = append(kn, id+": "+d)
	}
	sort.Strings(kn)
	var viol []map[string]interface{}
	for _, f := range reported {
		viol = append(viol, map[string]interface{}{"harness": f.Job.Name(), "outcome": f.Outcome, "msg": trunc(f.Msg, 300), "site": f.PanicSite,
			"inputs": renderInputs(f.Inputs, f.Labels), "native": f.Replayed, "known": f.Known, "tape": f.TapePath})
	}
	level := spec.Level
	if level == "" {
		level = "model_checking"
	}
	cov := map[string]interface{}{
		"states":                        states,
		"transitions":                   transitions,
		"traces_validated_against_impl": validated,
		"samples":                       samples,
		"evaluations":                   states,
		"distinct_nontrivial":           states,
		"rule":                          "one evaluation = one feasible path of the harness through the real SSA (a distinct path condition over the symbolic inputs); paths are enumerated by negating every recorded decision and asking the solver for inputs, so distinct paths have pairwise inconsistent path conditions; every path executes repository code, none is trivial",
		"explanation":                   spec.Explanation,
		"exhaustive":                    exhaustive,
		"functions_encoded":             fnames,
		"engine_intrinsics_used":        enames,
		"bounds":                        bounds,
		"solver":                        map[string]interface{}{"name": solverKindGlobal + " (-in -smt2, one process per worker)", "queries_sent": queries, "sat": sat, "unsat": unsat, "unknown": unknown, "cache_hits": cacheHits, "syntactic_unsat": trivialUnsat, "solver_seconds": round1(solverSec)},
		"cover_points":                  covers,
		"findings":                      viol,
		"known_findings_reproduced":     kn,
		"inconclusive":                  inconclusive,
		"ssa_rebuilt_from":              repoDir(),
		"load_seconds":                  round1(loadSeconds),
	}
	ev := map[string]interface{}{
		"property_id": prop,
		"tier":        tier,
		"seed":        seed,
		"level":       level,
		"coverage":    cov,
		"assumptions": spec.Assumptions,
		"wall_s":      round1(wall.Seconds()),
		"violations":  violations,
	}
	b, err := json.MarshalIndent(ev, "", " ")
	if err != nil {
		return err
	}
	dir := filepath.Join(verifDir(), "evidence")
	os.MkdirAll(dir, 0o755)
	return os.WriteFile(filepath.Join(dir, prop+".json"), b, 0o644)
}

func round1(f float64) float64 { return float64(int(f*10+0.5)) / 10 }
