package smt

import "strings"

// Peephole simplification applied when a term is built: constant folding of
// the common bit-vector operators, ite with a constant condition, boolean
// connectives with constant arguments. Keeps solver input small and makes
// structurally equal computations syntactically equal.

func isConst(t *Term) bool { return t.Op == "const" }

func mask(w int) uint64 {
	if w >= 64 {
		return ^uint64(0)
	}
	return (uint64(1) << uint(w)) - 1
}

func signExtend(v uint64, w int) int64 {
	if w >= 64 {
		return int64(v)
	}
	shift := uint(64 - w)
	return int64(v<<shift) >> shift
}

func boolTerm(b bool) *Term { return BoolConst(b) }

// simplify returns a replacement for (op args) or nil.
func simplify(op string, s Sort, args []*Term) *Term {
	switch op {
	case "ite":
		switch args[0].Op {
		case "true":
			return args[1]
		case "false":
			return args[2]
		}
		if args[1] == args[2] {
			return args[1]
		}
		return nil
	case "not":
		switch args[0].Op {
		case "true":
			return boolTerm(false)
		case "false":
			return boolTerm(true)
		}
		return nil
	case "and", "or":
		isAnd := op == "and"
		var keep []*Term
		for _, a := range args {
			switch a.Op {
			case "true":
				if !isAnd {
					return boolTerm(true)
				}
				continue
			case "false":
				if isAnd {
					return boolTerm(false)
				}
				continue
			}
			keep = append(keep, a)
		}
		if len(keep) == len(args) {
			return nil
		}
		switch len(keep) {
		case 0:
			return boolTerm(isAnd)
		case 1:
			return keep[0]
		}
		return mk(op, Bool, keep...)
	}
	if len(args) == 2 && args[0].S.K == KBV {
		a, b := args[0], args[1]
		w := a.S.W
		if isConst(a) && isConst(b) && b.S.K == KBV {
			x, y := a.Val, b.Val
			switch op {
			case "bvadd":
				return Const(s, x+y)
			case "bvsub":
				return Const(s, x-y)
			case "bvmul":
				return Const(s, x*y)
			case "bvand":
				return Const(s, x&y)
			case "bvor":
				return Const(s, x|y)
			case "bvxor":
				return Const(s, x^y)
			case "bvshl":
				if y >= uint64(w) {
					return Const(s, 0)
				}
				return Const(s, x<<y)
			case "bvlshr":
				if y >= uint64(w) {
					return Const(s, 0)
				}
				return Const(s, x>>y)
			case "bvashr":
				sx := signExtend(x, w)
				if y >= uint64(w) {
					y = uint64(w - 1)
				}
				return Const(s, uint64(sx>>y))
			case "=":
				return boolTerm(x == y)
			case "bvult":
				return boolTerm(x < y)
			case "bvule":
				return boolTerm(x <= y)
			case "bvugt":
				return boolTerm(x > y)
			case "bvuge":
				return boolTerm(x >= y)
			case "bvslt":
				return boolTerm(signExtend(x, w) < signExtend(y, w))
			case "bvsle":
				return boolTerm(signExtend(x, w) <= signExtend(y, w))
			case "bvsgt":
				return boolTerm(signExtend(x, w) > signExtend(y, w))
			case "bvsge":
				return boolTerm(signExtend(x, w) >= signExtend(y, w))
			}
			return nil
		}
		// identities with one constant
		switch op {
		case "bvxor", "bvor", "bvadd":
			if isConst(a) && a.Val == 0 {
				return b
			}
			if isConst(b) && b.Val == 0 {
				return a
			}
		case "bvsub", "bvshl", "bvlshr", "bvashr":
			if isConst(b) && b.Val == 0 {
				return a
			}
		case "bvand":
			if isConst(a) && a.Val == mask(w) {
				return b
			}
			if isConst(b) && b.Val == mask(w) {
				return a
			}
			if (isConst(a) && a.Val == 0) || (isConst(b) && b.Val == 0) {
				return Const(s, 0)
			}
		case "=":
			if a == b {
				return boolTerm(true)
			}
		}
		return nil
	}
	if len(args) == 1 && isConst(args[0]) {
		a := args[0]
		switch {
		case op == "bvnot":
			return Const(s, ^a.Val)
		case op == "bvneg":
			return Const(s, -a.Val)
		case strings.HasPrefix(op, "(_ zero_extend"):
			return Const(s, a.Val)
		case strings.HasPrefix(op, "(_ sign_extend"):
			return Const(s, uint64(signExtend(a.Val, a.S.W)))
		case strings.HasPrefix(op, "(_ extract"):
			var hi, lo int
			if _, err := sscanExtract(op, &hi, &lo); err == nil {
				return Const(s, (a.Val>>uint(lo))&mask(hi-lo+1))
			}
		}
	}
	return nil
}

func sscanExtract(op string, hi, lo *int) (int, error) {
	// "(_ extract H L)"
	f := strings.Fields(strings.Trim(op, "()"))
	if len(f) != 4 {
		return 0, errBadOp
	}
	h, err1 := atoi(f[2])
	l, err2 := atoi(f[3])
	if err1 != nil || err2 != nil {
		return 0, errBadOp
	}
	*hi, *lo = h, l
	return 2, nil
}

type simpleErr string

func (e simpleErr) Error() string { return string(e) }

var errBadOp = simpleErr("bad op")

func atoi(s string) (int, error) {
	n := 0
	if s == "" {
		return 0, errBadOp
	}
	for _, c := range s {
		if c < '0' || c > '9' {
			return 0, errBadOp
		}
		n = n*10 + int(c-'0')
	}
	return n, nil
}
