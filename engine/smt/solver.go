package smt

import (
	"bufio"
	"fmt"
	"io"
	"os/exec"
	"strconv"
	"strings"
	"time"
)

// Solver is one long-lived SMT solver process spoken to over a pipe.
type Solver struct {
	Kind       string // "z3", "z3-new", "cvc5"
	cmd        *exec.Cmd
	in         io.WriteCloser
	lines      chan string
	Restarts   int
	Generation int // incremented on every (re)start: sessions must re-send definitions
	Queries    int
	Sat        int
	Unsat      int
	Unknown    int
	Errors     int
	Elapsed    time.Duration
	Log        io.Writer // optional transcript
	timeout    int
}

func Start(kind string, timeoutMs int) (*Solver, error) {
	s := &Solver{Kind: kind, timeout: timeoutMs}
	if err := s.spawn(); err != nil {
		return nil, err
	}
	return s, nil
}

func (s *Solver) spawn() error {
	kind, timeoutMs := s.Kind, s.timeout
	var cmd *exec.Cmd
	switch kind {
	case "z3", "z3-new":
		cmd = exec.Command(kind, "-in", "-smt2")
	case "cvc5":
		cmd = exec.Command("cvc5", "--incremental", "--lang=smt2", "--produce-models", fmt.Sprintf("--tlimit-per=%d", timeoutMs))
	default:
		return fmt.Errorf("unknown solver %q", kind)
	}
	in, err := cmd.StdinPipe()
	if err != nil {
		return err
	}
	out, err := cmd.StdoutPipe()
	if err != nil {
		return err
	}
	cmd.Stderr = cmd.Stdout
	if err := cmd.Start(); err != nil {
		return err
	}
	s.cmd, s.in = cmd, in
	s.Generation++
	lines := make(chan string, 256)
	s.lines = lines
	go func() {
		rd := bufio.NewReaderSize(out, 1<<16)
		for {
			line, err := rd.ReadString('\n')
			if line != "" {
				lines <- line
			}
			if err != nil {
				close(lines)
				return
			}
		}
	}()
	pre := "(set-option :produce-models true)\n"
	if kind != "cvc5" {
		pre += fmt.Sprintf("(set-option :timeout %d)\n", timeoutMs)
	}
	pre += "(set-logic ALL)\n"
	if _, err := s.roundTrip(pre); err != nil {
		return err
	}
	return nil
}

// ErrTimeout is returned when the solver did not answer within the hard
// limit; the process has been killed and restarted (Generation changed).
var ErrTimeout = fmt.Errorf("solver hard timeout")

func (s *Solver) kill() {
	if s.cmd != nil && s.cmd.Process != nil {
		s.cmd.Process.Kill()
		go s.cmd.Wait()
	}
	s.cmd = nil
}

func (s *Solver) Close() {
	if s == nil || s.cmd == nil {
		return
	}
	io.WriteString(s.in, "(exit)\n")
	s.in.Close()
	done := make(chan struct{})
	go func() { s.cmd.Wait(); close(done) }()
	select {
	case <-done:
	case <-time.After(2 * time.Second):
		s.cmd.Process.Kill()
	}
	s.cmd = nil
}

const marker = "<<gosym-done>>"

// roundTrip sends text followed by an echo marker and returns the output lines
// that preceded the marker.
func (s *Solver) roundTrip(text string) ([]string, error) {
	if s.Log != nil {
		io.WriteString(s.Log, text)
	}
	if _, err := io.WriteString(s.in, text+"(echo \""+marker+"\")\n"); err != nil {
		return nil, err
	}
	var lines []string
	deadline := time.After(time.Duration(s.timeout)*time.Millisecond*2 + 5*time.Second)
	for {
		var line string
		select {
		case l, ok := <-s.lines:
			if !ok {
				return lines, fmt.Errorf("solver %s died (output so far: %q)", s.Kind, lines)
			}
			line = l
		case <-deadline:
			s.kill()
			s.Restarts++
			if err := s.spawn(); err != nil {
				return lines, fmt.Errorf("solver restart failed: %v", err)
			}
			return lines, ErrTimeout
		}
		line = strings.TrimRight(line, "\r\n")
		if strings.Contains(line, marker) {
			break
		}
		if line != "" {
			lines = append(lines, line)
		}
	}
	if s.Log != nil {
		for _, l := range lines {
			io.WriteString(s.Log, "; -> "+l+"\n")
		}
	}
	return lines, nil
}

// Send sends declarations/assertions that produce no output; any output is an error.
func (s *Solver) Send(text string) error {
	if text == "" {
		return nil
	}
	lines, err := s.roundTrip(text)
	if err != nil {
		return err
	}
	for _, l := range lines {
		if strings.Contains(l, "error") {
			s.Errors++
			return fmt.Errorf("solver error: %s (sent: %.400s)", l, text)
		}
	}
	return nil
}

// SendRaw writes without waiting for a reply (used for push/pop/assert batches
// whose errors surface at the next Check).
func (s *Solver) SendRaw(text string) error {
	if s.Log != nil {
		io.WriteString(s.Log, text)
	}
	_, err := io.WriteString(s.in, text)
	return err
}

type Result int

const (
	Unsat Result = iota
	Sat
	Unknown
)

func (r Result) String() string { return [...]string{"unsat", "sat", "unknown"}[r] }

// Check runs text (assertions etc.), then (check-sat); when sat and vars is
// non-empty it also fetches their values. Any "(error" line makes the result
// Unknown with an error.
func (s *Solver) Check(text string, vars []*Term) (Result, map[string]uint64, error) {
	t0 := time.Now()
	defer func() { s.Elapsed += time.Since(t0) }()
	s.Queries++
	lines, err := s.roundTrip(text + "(check-sat)\n")
	if err == ErrTimeout {
		s.Unknown++
		return Unknown, nil, nil
	}
	if err != nil {
		return Unknown, nil, err
	}
	res := Unknown
	seen := false
	for _, l := range lines {
		if strings.Contains(l, "(error") {
			s.Errors++
			s.Unknown++
			return Unknown, nil, fmt.Errorf("solver error: %s", l)
		}
		switch strings.TrimSpace(l) {
		case "sat":
			res, seen = Sat, true
		case "unsat":
			res, seen = Unsat, true
		case "unknown", "timeout":
			res, seen = Unknown, true
		}
	}
	if !seen {
		s.Unknown++
		return Unknown, nil, fmt.Errorf("no check-sat answer in %q", lines)
	}
	switch res {
	case Unsat:
		s.Unsat++
		return res, nil, nil
	case Unknown:
		s.Unknown++
		return res, nil, nil
	}
	s.Sat++
	if len(vars) == 0 {
		return res, map[string]uint64{}, nil
	}
	var sb strings.Builder
	sb.WriteString("(get-value (")
	for _, v := range vars {
		sb.WriteString(v.Name)
		sb.WriteByte(' ')
	}
	sb.WriteString("))\n")
	lines, err = s.roundTrip(sb.String())
	if err == ErrTimeout {
		s.Sat--
		s.Unknown++
		return Unknown, nil, nil
	}
	if err != nil {
		return Unknown, nil, err
	}
	joined := strings.Join(lines, " ")
	if strings.Contains(joined, "(error") {
		s.Errors++
		return Unknown, nil, fmt.Errorf("solver error in get-value: %s", joined)
	}
	m, err := parseValues(joined)
	if err != nil {
		return Unknown, nil, err
	}
	return res, m, nil
}

// parseValues parses ((v0 #x00) (v1 true) (v2 #b101) (v3 (_ bv5 32)) ...).
func parseValues(s string) (map[string]uint64, error) {
	m := map[string]uint64{}
	toks := tokenize(s)
	// expect: ( ( name val ) ( name val ) ... )
	i := 0
	if i >= len(toks) || toks[i] != "(" {
		return nil, fmt.Errorf("bad get-value output: %.200s", s)
	}
	i++
	for i < len(toks) && toks[i] == "(" {
		i++
		if i+1 >= len(toks) {
			return nil, fmt.Errorf("truncated get-value output")
		}
		name := toks[i]
		i++
		var val uint64
		switch {
		case toks[i] == "(":
			// (_ bvN W)
			if i+3 < len(toks) && toks[i+1] == "_" && strings.HasPrefix(toks[i+2], "bv") {
				v, err := strconv.ParseUint(toks[i+2][2:], 10, 64)
				if err != nil {
					return nil, err
				}
				val = v
				i += 5
			} else {
				return nil, fmt.Errorf("unsupported value for %s in %.200s", name, s)
			}
		case toks[i] == "true":
			val = 1
			i++
		case toks[i] == "false":
			val = 0
			i++
		case strings.HasPrefix(toks[i], "#x"):
			v, err := strconv.ParseUint(toks[i][2:], 16, 64)
			if err != nil {
				return nil, err
			}
			val = v
			i++
		case strings.HasPrefix(toks[i], "#b"):
			v, err := strconv.ParseUint(toks[i][2:], 2, 64)
			if err != nil {
				return nil, err
			}
			val = v
			i++
		default:
			return nil, fmt.Errorf("unsupported value token %q for %s", toks[i], name)
		}
		if i >= len(toks) || toks[i] != ")" {
			return nil, fmt.Errorf("expected ) after value of %s", name)
		}
		i++
		m[name] = val
	}
	return m, nil
}

func tokenize(s string) []string {
	var toks []string
	cur := strings.Builder{}
	flush := func() {
		if cur.Len() > 0 {
			toks = append(toks, cur.String())
			cur.Reset()
		}
	}
	for _, r := range s {
		switch r {
		case '(', ')':
			flush()
			toks = append(toks, string(r))
		case ' ', '\t', '\n':
			flush()
		default:
			cur.WriteRune(r)
		}
	}
	flush()
	return toks
}
