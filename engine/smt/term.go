// Package smt holds the term representation and the solver pipe used by the
// symbolic layer of the interpreter.
package smt

import (
	"fmt"
	"strings"
	"sync/atomic"
)

// Sort kinds.
type SortKind uint8

const (
	KBool SortKind = iota
	KBV
	KFP32
	KFP64
)

type Sort struct {
	K SortKind
	W int // bit width for KBV
}

var (
	Bool = Sort{K: KBool}
	BV8  = Sort{K: KBV, W: 8}
	BV16 = Sort{K: KBV, W: 16}
	BV32 = Sort{K: KBV, W: 32}
	BV64 = Sort{K: KBV, W: 64}
	FP32 = Sort{K: KFP32}
	FP64 = Sort{K: KFP64}
)

func BV(w int) Sort { return Sort{K: KBV, W: w} }

func (s Sort) String() string {
	switch s.K {
	case KBool:
		return "Bool"
	case KBV:
		return fmt.Sprintf("(_ BitVec %d)", s.W)
	case KFP32:
		return "(_ FloatingPoint 8 24)"
	case KFP64:
		return "(_ FloatingPoint 11 53)"
	}
	return "?"
}

// Term is a node of an SMT term DAG. Terms are created per run; ID is unique
// within the Ctx that created them.
type Term struct {
	ID     int
	Op     string // SMT-LIB operator / "var" / "const" / "true" / "false" / raw indexed op text
	Args   []*Term
	S      Sort
	Name   string  // for var
	Val    uint64  // for BV const
	VarIdx int     // for var: index among the run's inputs
	H1, H2 uint64  // structural hash (variables by index, so stable across runs)
	Vars   []int32 // sorted indices of the input variables the term depends on
}

// Ctx remembers the input variables declared during one run.
type Ctx struct {
	Vars []*Term
}

func NewCtx() *Ctx { return &Ctx{} }

var nextID int64

func mk(op string, s Sort, args ...*Term) *Term {
	t := &Term{ID: int(atomic.AddInt64(&nextID, 1)), Op: op, Args: args, S: s}
	h1, h2 := hashStr(op, uint64(s.K)<<8|uint64(s.W))
	for _, a := range args {
		h1 = (h1 ^ a.H1) * 1099511628211
		h1 ^= h1 >> 29
		h2 = (h2+a.H2)*0x9E3779B97F4A7C15 + 0x632BE59BD9B4E019
		h2 ^= h2 >> 31
		t.Vars = mergeVars(t.Vars, a.Vars)
	}
	t.H1, t.H2 = h1, h2
	return t
}

func hashStr(s string, seed uint64) (uint64, uint64) {
	h1 := uint64(14695981039346656037) ^ seed
	h2 := uint64(0x9E3779B97F4A7C15) + seed*31
	for i := 0; i < len(s); i++ {
		h1 = (h1 ^ uint64(s[i])) * 1099511628211
		h2 = (h2 + uint64(s[i]) + 1) * 0xBF58476D1CE4E5B9
		h2 ^= h2 >> 32
	}
	return h1, h2
}

func rehash(t *Term, extra uint64) {
	t.H1 = (t.H1 ^ extra) * 1099511628211
	t.H1 ^= t.H1 >> 29
	t.H2 = (t.H2+extra)*0x94D049BB133111EB + 1
	t.H2 ^= t.H2 >> 31
}

// mergeVars returns the sorted union of two sorted index lists, sharing
// storage when one contains the other.
func mergeVars(a, b []int32) []int32 {
	if len(a) == 0 {
		return b
	}
	if len(b) == 0 {
		return a
	}
	// fast paths
	if len(a) == len(b) {
		same := true
		for i := range a {
			if a[i] != b[i] {
				same = false
				break
			}
		}
		if same {
			return a
		}
	}
	out := make([]int32, 0, len(a)+len(b))
	i, j := 0, 0
	for i < len(a) && j < len(b) {
		switch {
		case a[i] < b[j]:
			out = append(out, a[i])
			i++
		case a[i] > b[j]:
			out = append(out, b[j])
			j++
		default:
			out = append(out, a[i])
			i++
			j++
		}
	}
	out = append(out, a[i:]...)
	out = append(out, b[j:]...)
	return out
}

// Var declares a fresh input variable named v<i>.
func (c *Ctx) Var(s Sort) *Term {
	t := mk("var", s)
	t.Name = fmt.Sprintf("v%d", len(c.Vars))
	t.VarIdx = len(c.Vars)
	t.Vars = []int32{int32(t.VarIdx)}
	rehash(t, uint64(t.VarIdx)+1)
	c.Vars = append(c.Vars, t)
	return t
}

func Const(s Sort, v uint64) *Term {
	if s.K != KBV {
		panic("Const: non-BV sort")
	}
	if s.W < 64 {
		v &= (uint64(1) << uint(s.W)) - 1
	}
	t := mk("const", s)
	t.Val = v
	rehash(t, v)
	return t
}

func BoolConst(b bool) *Term {
	if b {
		return mk("true", Bool)
	}
	return mk("false", Bool)
}

// App builds an application with an explicit result sort.
func App(op string, s Sort, args ...*Term) *Term {
	for _, a := range args {
		if a == nil {
			panic("smt.App: nil argument to " + op)
		}
	}
	if r := simplify(op, s, args); r != nil {
		return r
	}
	return mk(op, s, args...)
}

func Not(a *Term) *Term {
	if a.Op == "not" {
		return a.Args[0]
	}
	return App("not", Bool, a)
}

func And(as ...*Term) *Term {
	switch len(as) {
	case 0:
		return BoolConst(true)
	case 1:
		return as[0]
	}
	return App("and", Bool, as...)
}

func Or(as ...*Term) *Term {
	switch len(as) {
	case 0:
		return BoolConst(false)
	case 1:
		return as[0]
	}
	return App("or", Bool, as...)
}

func Eq(a, b *Term) *Term {
	if a.S.K == KFP32 || a.S.K == KFP64 {
		return mk("fp.eq", Bool, a, b)
	}
	return mk("=", Bool, a, b)
}

func Ite(cnd, a, b *Term) *Term { return App("ite", a.S, cnd, a, b) }

// ZeroExt / SignExt / Extract build width conversions.
func ZeroExt(a *Term, to int) *Term {
	if to == a.S.W {
		return a
	}
	return App(fmt.Sprintf("(_ zero_extend %d)", to-a.S.W), BV(to), a)
}

func SignExt(a *Term, to int) *Term {
	if to == a.S.W {
		return a
	}
	return App(fmt.Sprintf("(_ sign_extend %d)", to-a.S.W), BV(to), a)
}

func Extract(a *Term, hi, lo int) *Term {
	return App(fmt.Sprintf("(_ extract %d %d)", hi, lo), BV(hi-lo+1), a)
}

// Emitter writes define-funs for terms into a solver session, once each.
type Emitter struct {
	done   map[int]bool
	byHash map[[2]uint64]string // structurally equal terms share one definition
	alias  map[int]string
	sb     strings.Builder
}

func NewEmitter() *Emitter {
	return &Emitter{done: map[int]bool{}, byHash: map[[2]uint64]string{}, alias: map[int]string{}}
}

// Ref returns the SMT-LIB reference for t, emitting definitions as needed into
// the pending buffer (retrieved with Flush).
func (e *Emitter) Ref(t *Term) string {
	switch t.Op {
	case "var":
		if !e.done[t.ID] {
			e.done[t.ID] = true
			fmt.Fprintf(&e.sb, "(declare-const %s %s)\n", t.Name, t.S)
		}
		return t.Name
	case "const":
		return bvLit(t.Val, t.S.W)
	case "true", "false":
		return t.Op
	}
	name := fmt.Sprintf("t%d", t.ID)
	if e.done[t.ID] {
		if a, ok := e.alias[t.ID]; ok {
			return a
		}
		return name
	}
	// iterative post-order to avoid deep recursion on long chains
	type fr struct {
		t *Term
		i int
	}
	stack := []fr{{t, 0}}
	for len(stack) > 0 {
		top := &stack[len(stack)-1]
		if top.i < len(top.t.Args) {
			a := top.t.Args[top.i]
			top.i++
			if a.Op == "var" {
				e.Ref(a)
			} else if a.Op != "const" && a.Op != "true" && a.Op != "false" && !e.done[a.ID] {
				stack = append(stack, fr{a, 0})
			}
			continue
		}
		tt := top.t
		stack = stack[:len(stack)-1]
		if e.done[tt.ID] {
			continue
		}
		e.done[tt.ID] = true
		hk := [2]uint64{tt.H1, tt.H2}
		if prev, ok := e.byHash[hk]; ok {
			e.alias[tt.ID] = prev
			continue
		}
		e.byHash[hk] = fmt.Sprintf("t%d", tt.ID)
		fmt.Fprintf(&e.sb, "(define-fun t%d () %s (%s", tt.ID, tt.S, tt.Op)
		for _, a := range tt.Args {
			e.sb.WriteByte(' ')
			e.sb.WriteString(e.leaf(a))
		}
		e.sb.WriteString("))\n")
	}
	if a, ok := e.alias[t.ID]; ok {
		return a
	}
	return name
}

func (e *Emitter) leaf(a *Term) string {
	switch a.Op {
	case "var":
		return a.Name
	case "const":
		return bvLit(a.Val, a.S.W)
	case "true", "false":
		return a.Op
	}
	if al, ok := e.alias[a.ID]; ok {
		return al
	}
	return fmt.Sprintf("t%d", a.ID)
}

// Flush returns and clears pending declarations/definitions.
func (e *Emitter) Flush() string {
	s := e.sb.String()
	e.sb.Reset()
	return s
}

func bvLit(v uint64, w int) string {
	if w%4 == 0 {
		return fmt.Sprintf("#x%0*x", w/4, v)
	}
	return fmt.Sprintf("(_ bv%d %d)", v, w)
}

// String renders a term inline (for diagnostics), truncating deep terms.
func (t *Term) String() string { return t.str(6) }

func (t *Term) str(depth int) string {
	switch t.Op {
	case "var":
		return t.Name
	case "const":
		return bvLit(t.Val, t.S.W)
	case "true", "false":
		return t.Op
	}
	if depth == 0 {
		return "..."
	}
	var sb strings.Builder
	sb.WriteString("(" + t.Op)
	for _, a := range t.Args {
		sb.WriteByte(' ')
		sb.WriteString(a.str(depth - 1))
	}
	sb.WriteByte(')')
	return sb.String()
}
