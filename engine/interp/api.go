package interp

import (
	"fmt"
	"go/token"
	"go/types"
	"sort"
	"strings"
	"time"

	"golang.org/x/tools/go/ssa"

	"gosym/smt"
)

// Program is the shared, read-only part: the SSA program prepared for
// interpretation. Safe for concurrent use by several interpreters.
type Program struct {
	prog               *ssa.Program
	reflectPackage     *ssa.Package
	errorMethods       methodSet
	rtypeMethods       methodSet
	runtimeErrorString types.Type
	sizes              types.Sizes
	initWhitelist      map[string]bool
	initPrefix         []string
	allowUninitVars    map[string]bool
	byName             map[string]*ssa.Function
	stubs              map[string]*ssa.Function // real function name -> harness stub (ZZStub_<pkg>_<Func>)
	InitValues         map[string]interface{}   // constant initial values of selected globals of packages whose init is not run
}

// NewProgram prepares prog (which must have been built with
// ssa.InstantiateGenerics) for interpretation.
func NewProgram(prog *ssa.Program, sizes types.Sizes, initPkgs []string, initPrefixes []string, allowUninit []string) *Program {
	p := &Program{prog: prog, sizes: sizes, initWhitelist: map[string]bool{}, allowUninitVars: map[string]bool{}, byName: map[string]*ssa.Function{}}
	for _, s := range initPkgs {
		p.initWhitelist[s] = true
	}
	p.initPrefix = initPrefixes
	for _, s := range allowUninit {
		p.allowUninitVars[s] = true
	}
	runtimePkg := prog.ImportedPackage("runtime")
	if runtimePkg == nil {
		panic("ssa.Program doesn't include runtime package")
	}
	p.runtimeErrorString = runtimePkg.Type("errorString").Object().Type()
	p.stubs = map[string]*ssa.Function{}
	for _, pkg := range prog.AllPackages() {
		for name, m := range pkg.Members {
			fn, ok := m.(*ssa.Function)
			if !ok || !strings.HasPrefix(name, "ZZStub_") {
				continue
			}
			rest := strings.TrimPrefix(name, "ZZStub_")
			k := strings.LastIndex(rest, "_")
			if k < 0 {
				continue
			}
			target := strings.ReplaceAll(rest[:k], "_", "/") + "." + rest[k+1:]
			p.stubs[target] = fn
		}
	}
	initReflect(p)
	return p
}

// Stubs lists the environment stubs supplied by harness files.
func (p *Program) Stubs() []string {
	var out []string
	for k, v := range p.stubs {
		out = append(out, k+" -> "+v.String())
	}
	sort.Strings(out)
	return out
}

func (p *Program) initAllowed(pkg *ssa.Package) bool {
	path := pkg.Pkg.Path()
	if p.initWhitelist[path] {
		return true
	}
	for _, pre := range p.initPrefix {
		if strings.HasPrefix(path, pre) {
			return true
		}
	}
	return false
}

func (p *Program) eagerInit(pkg *ssa.Package) bool {
	path := pkg.Pkg.Path()
	for _, pre := range p.initPrefix {
		if strings.HasPrefix(path, pre) {
			return true
		}
	}
	return false
}

// global returns the address of g, allocating it on first use and running
// the (whitelisted) package initializer of its package if that has not run.
func (i *interpreter) global(g *ssa.Global) *value {
	if g.Pkg != nil && !i.inited[g.Pkg] {
		switch {
		case i.initAllowed(g.Pkg):
			initFn := g.Pkg.Func("init")
			if i.forcing == nil {
				i.forcing = map[*ssa.Package]bool{}
			}
			i.forcing[g.Pkg] = true
			savedSteps, savedBudget := i.run.steps, i.run.budget
			i.run.budget = 1 << 40
			// package initialisation happens before everything: not a thread's access
			i.raceSuspend(+1)
			call(i, nil, token.NoPos, initFn, nil)
			i.raceSuspend(-1)
			i.run.steps, i.run.budget = savedSteps, savedBudget
			i.inited[g.Pkg] = true
		case i.allowUninit(g) || i.hasInitValue(g):
		default:
			panic(engineErrorf("access to global %s of package %s whose init is not executed (add the package to the init whitelist or the variable to the allow list)", g.Name(), g.Pkg.Pkg.Path()))
		}
	}
	if r, ok := i.globals[g]; ok {
		return r
	}
	cell := zero(mustDeref(g.Type()))
	if g.Pkg != nil && !i.inited[g.Pkg] {
		if v, ok := i.InitValues[g.Pkg.Pkg.Path()+"."+g.Name()]; ok {
			cell = v
		}
	}
	i.globals[g] = &cell
	return &cell
}

func (p *Program) hasInitValue(g *ssa.Global) bool {
	_, ok := p.InitValues[g.Pkg.Pkg.Path()+"."+g.Name()]
	return ok
}

func (p *Program) allowUninit(g *ssa.Global) bool {
	return p.allowUninitVars[g.Pkg.Pkg.Path()+"."+g.Name()] || p.allowUninitVars[g.Pkg.Pkg.Path()+".*"]
}

// Outcome of one run.
type Outcome int

const (
	OK Outcome = iota
	Violation
	EscapedPanic
	AssumeFailed
	Budget
	EngineError
)

func (o Outcome) String() string {
	return [...]string{"ok", "violation", "panic", "assume-failed", "budget", "engine-error"}[o]
}

// VarInfo describes one input variable created during a run.
type VarInfo struct {
	Term  *smt.Term
	Label string
	Value uint64 // concrete value used in this run
}

// RunConfig parametrises one run.
type RunConfig struct {
	Inputs   []uint64 // value of v0, v1, ...; missing = 0
	Budget   int64
	MapOrder bool
	Trace    bool
}

// RunResult is everything the explorer needs from one run.
type RunResult struct {
	Outcome        Outcome
	Msg            string
	Stack          string
	Trace          []Branch
	Vars           []VarInfo
	Covers         map[string]int
	Observed       []string
	Steps          int64
	Recovered      int
	RecoveredSites []string
	PanicSite      string
	TriedSites     []string
	Calls          map[string]int // repo/target functions executed (String() form)
	Externals      map[string]int
}

type runState struct {
	ctx            *smt.Ctx
	inputs         []uint64
	vars           []VarInfo
	trace          []Branch
	steps          int64
	budget         int64
	mapOrder       bool
	covers         map[string]int
	observed       []string
	recovered      int
	calls          map[*ssa.Function]int
	exts           map[*ssa.Function]int
	maxTrace       int
	panicSite      string
	recoveredSites []string
	triedSites     []string
}

func (r *runState) addBranch(b Branch) {
	r.trace = append(r.trace, b)
	if len(r.trace) > r.maxTrace {
		panic(budgetExceeded{fmt.Sprintf("more than %d symbolic decisions on one path", r.maxTrace)})
	}
}

func (r *runState) noteCall(fn *ssa.Function, external bool) {
	if external {
		r.exts[fn]++
	} else {
		r.calls[fn]++
	}
}

// newVar creates input variable number len(vars) of the given sort and returns
// its concrete value under the run's input assignment.
func (r *runState) newVar(s smt.Sort, label string) (*smt.Term, uint64) {
	t := r.ctx.Var(s)
	k := len(r.vars)
	var v uint64
	if k < len(r.inputs) {
		v = r.inputs[k]
	}
	switch s.K {
	case smt.KBool:
		v &= 1
	case smt.KBV:
		if s.W < 64 {
			v &= (uint64(1) << uint(s.W)) - 1
		}
	}
	r.vars = append(r.vars, VarInfo{Term: t, Label: label, Value: v})
	return t, v
}

// chooseInt returns a solver-chosen integer in [0,k).
func (i *interpreter) chooseInt(k int, label string) int {
	if k <= 1 {
		return 0
	}
	t, v := i.run.newVar(smt.BV32, label)
	in := mkSym(v < uint64(k), smt.App("bvult", smt.Bool, t, smt.Const(smt.BV32, uint64(k))))
	if !i.decide(in, BrAssume, label+" range") {
		panic(assumeFailed{label + " range"})
	}
	return int(i.concretize(sym{c: uint32(v), t: t}, label).(uint32))
}

func (i *interpreter) site(instr ssa.Instruction) string {
	pos := instr.Pos()
	if pos == token.NoPos {
		if instr.Parent() != nil {
			return instr.Parent().String()
		}
		return ""
	}
	p := i.prog.Fset.Position(pos)
	return fmt.Sprintf("%s:%d", p.Filename, p.Line)
}

// Lookup finds a package-level function by package path and name.
func (p *Program) Lookup(pkgPath, name string) *ssa.Function {
	key := pkgPath + "." + name
	if f, ok := p.byName[key]; ok {
		return f
	}
	for _, pkg := range p.prog.AllPackages() {
		if pkg.Pkg.Path() == pkgPath {
			return pkg.Func(name)
		}
	}
	return nil
}

// Functions lists package-level functions of pkgPath whose name has the prefix.
func (p *Program) Functions(pkgPath, prefix string) []*ssa.Function {
	var res []*ssa.Function
	for _, pkg := range p.prog.AllPackages() {
		if pkg.Pkg.Path() != pkgPath {
			continue
		}
		for name, m := range pkg.Members {
			if f, ok := m.(*ssa.Function); ok && strings.HasPrefix(name, prefix) {
				res = append(res, f)
			}
		}
	}
	sort.Slice(res, func(a, b int) bool { return res[a].Name() < res[b].Name() })
	return res
}

func (i *interpreter) callByName(caller *frame, pkgPath, name string, args []value) value {
	fn := i.Program.Lookup(pkgPath, name)
	if fn == nil {
		panic(engineErrorf("callByName: %s.%s not in program", pkgPath, name))
	}
	return call(i, caller, token.NoPos, fn, args)
}

// Run executes fn(args...) once under cfg and returns what happened.
func (p *Program) Run(fn *ssa.Function, intArgs []int, cfg RunConfig) (res *RunResult) {
	run := &runState{
		ctx:      smt.NewCtx(),
		inputs:   cfg.Inputs,
		budget:   cfg.Budget,
		mapOrder: cfg.MapOrder,
		covers:   map[string]int{},
		calls:    map[*ssa.Function]int{},
		exts:     map[*ssa.Function]int{},
		maxTrace: 20000,
	}
	if run.budget == 0 {
		run.budget = 5_000_000
	}
	i := &interpreter{
		Program: p,
		globals: make(map[*ssa.Global]*value),
		run:     run,
		inited:  map[*ssa.Package]bool{},
		abort:   make(chan struct{}),
	}
	i.gil.Lock()
	defer i.gil.Unlock()
	// when the run is over, unwind every goroutine still parked
	defer i.abortOnce.Do(func() { close(i.abort) })
	if cfg.Trace {
		i.mode |= EnableTracing
	}
	res = &RunResult{}
	defer func() {
		res.Trace = run.trace
		res.Vars = run.vars
		res.Covers = run.covers
		res.Observed = run.observed
		res.Steps = run.steps
		res.Recovered = run.recovered
		res.RecoveredSites = run.recoveredSites
		res.PanicSite = run.panicSite
		res.TriedSites = run.triedSites
		res.Calls = map[string]int{}
		for f, n := range run.calls {
			res.Calls[f.String()] += n
		}
		res.Externals = map[string]int{}
		for f, n := range run.exts {
			res.Externals[f.String()] += n
		}
	}()
	defer func() {
		r := recover()
		if r == nil {
			return
		}
		switch r := asEngineError(r).(type) {
		case targetPanic:
			res.Outcome = EscapedPanic
			res.Msg = "panic: " + i.panicString(r.v)
		case runtimePanic:
			res.Outcome = EscapedPanic
			res.Msg = "panic: " + r.msg
		case budgetExceeded:
			res.Outcome = Budget
			res.Msg = r.what
		case assumeFailed:
			res.Outcome = AssumeFailed
			res.Msg = r.site
		case violation:
			res.Outcome = Violation
			res.Msg = r.msg
		case engineError:
			res.Outcome = EngineError
			res.Msg = r.msg
			res.Stack = r.stack
		default:
			res.Outcome = EngineError
			res.Msg = fmt.Sprintf("%v", r)
		}
	}()

	// init of the harness package (pulls in whitelisted dependencies)
	if fn.Pkg != nil {
		if initFn := fn.Pkg.Func("init"); initFn != nil {
			i.inited[fn.Pkg] = true
			savedBudget := run.budget
			run.budget = 1 << 40
			callInit(i, initFn)
			run.budget = savedBudget
			run.steps = 0
		}
	}
	args := make([]value, len(intArgs))
	for k, a := range intArgs {
		args[k] = a
	}
	call(i, nil, token.NoPos, fn, args)
	res.Outcome = OK
	return res
}

func callInit(i *interpreter, initFn *ssa.Function) {
	// The harness package's own initializer is always allowed.
	fr := &frame{i: i, fn: initFn}
	fr.env = make(map[ssa.Value]value)
	fr.block = initFn.Blocks[0]
	fr.locals = make([]value, len(initFn.Locals))
	for k, l := range initFn.Locals {
		fr.locals[k] = zero(mustDeref(l.Type()))
		fr.env[l] = &fr.locals[k]
	}
	for fr.block != nil {
		runFrame(fr)
	}
}

// panicString renders a panic value for messages; error/Stringer values are
// asked for their text through the interpreter.
func (i *interpreter) panicString(v value) string {
	defer func() { recover() }()
	if itf, ok := v.(iface); ok {
		if itf.t == nil {
			return "nil"
		}
		if s, ok := i.textOf(itf); ok {
			return fmt.Sprintf("(%s) %s", itf.t, s)
		}
		return fmt.Sprintf("(%s) %s", itf.t, toString(itf.v))
	}
	return toString(v)
}

// textOf calls Error() or String() on an interface value if it has one.
func (i *interpreter) textOf(itf iface) (string, bool) {
	if itf.t == nil {
		return "<nil>", true
	}
	for _, name := range []string{"Error", "String"} {
		mset := i.prog.MethodSets.MethodSet(itf.t)
		for k := 0; k < mset.Len(); k++ {
			sel := mset.At(k)
			if sel.Obj().Name() != name {
				continue
			}
			sig := sel.Type().(*types.Signature)
			if sig.Params().Len() != 0 || sig.Results().Len() != 1 {
				continue
			}
			if b, ok := sig.Results().At(0).Type().Underlying().(*types.Basic); !ok || b.Kind() != types.String {
				continue
			}
			var fn *ssa.Function
			switch itf.t {
			case errorType:
				return conc(itf.v).(string), true
			case rtypeType:
				return itf.v.(rtype).t.String(), true
			default:
				fn = i.prog.MethodValue(sel)
			}
			if fn == nil {
				continue
			}
			r := call(i, nil, token.NoPos, fn, []value{itf.v})
			s, _ := strParts(r)
			return s, true
		}
	}
	return "", false
}

// spawn runs an interpreted goroutine on a native goroutine. Whatever ends
// the run there (violation, engine error, escaped panic) is handed to the
// main goroutine through abort.
func (i *interpreter) spawn(fr *frame, instr *ssa.Go, fn value, args []value) {
	i.threads++
	if i.threads == 1 {
		// watchdog: a goroutine that blocks outside the modelled primitives
		// (an unmodelled channel protocol, sync.Cond, ...) would leave the
		// scheduler waiting forever; end such a run as an engine error
		go func() {
			t := time.NewTimer(120 * time.Second)
			defer t.Stop()
			select {
			case <-i.abort:
			case <-t.C:
				i.abortOnce.Do(func() {
					i.abortVal = engineError{msg: "thread-mode run exceeded 120 s of wall clock: a goroutine is blocked outside the modelled synchronisation primitives"}
					close(i.abort)
				})
			}
		}()
	}
	if i.threads > 64 {
		panic(engineErrorf("more than 64 goroutines spawned (%s)", i.site(instr)))
	}
	go func() {
		i.gil.Lock()
		defer i.gil.Unlock()
		defer func() {
			r := recover()
			if r == nil {
				return
			}
			if _, ok := r.(threadAbort); ok {
				return
			}
			i.abortOnce.Do(func() {
				i.abortVal = asEngineError(r)
				close(i.abort)
			})
		}()
		call(i, nil, instr.Pos(), fn, args)
	}()
}

// chanOpInThread: channel communication of the code under test while logical
// threads exist is outside what the cooperative scheduler models (a blocked
// receive would park the only running goroutine and the native forced-schedule
// replay could not follow it either). It ends the run as an engine error at
// once, so the check answers "cannot decide" (exit 2) instead of hanging.
func (i *interpreter) chanOpInThread(in ssa.Instruction) {
	if i.threads == 0 || raceExempt(in) {
		return
	}
	panic(engineErrorf("channel operation at %s while logical threads exist: channels of the code under test are not modelled by the cooperative scheduler", i.site(in)))
}

func (i *interpreter) aborted() {
	if i.abortVal != nil {
		panic(i.abortVal)
	}
	panic(threadAbort{})
}

func (i *interpreter) chanSend(ch chan value, v value) {
	i.gil.Unlock()
	select {
	case ch <- v:
		i.gil.Lock()
	case <-i.abort:
		i.gil.Lock()
		i.aborted()
	}
}

func (i *interpreter) chanRecv(ch chan value) (value, bool) {
	i.gil.Unlock()
	select {
	case v, ok := <-ch:
		i.gil.Lock()
		return v, ok
	case <-i.abort:
		i.gil.Lock()
		i.aborted()
	}
	return nil, false
}

func (i *interpreter) selectInstr(fr *frame, instr *ssa.Select) value {
	panic(engineErrorf("select not supported (%s)", i.site(instr)))
}
