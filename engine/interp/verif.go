package interp

import (
	"fmt"
	"go/token"
	"math"
	"strings"

	"gosym/smt"
)

// verifIntrinsic implements package zzverif inside the engine.
func verifIntrinsic(fr *frame, name string, args []value) value {
	i := fr.i
	r := i.run
	if name == "init" || strings.HasPrefix(name, "init#") {
		return nil
	}
	switch name {
	case "Byte":
		t, v := r.newVar(smt.BV8, "byte")
		return sym{c: byte(v), t: t}
	case "Bytes":
		n := int(i.intS(args[0], "Bytes length"))
		b := make([]value, n)
		for k := range b {
			t, v := r.newVar(smt.BV8, "byte")
			b[k] = sym{c: byte(v), t: t}
		}
		return b
	case "String":
		n := int(i.intS(args[0], "String length"))
		bs := make([]byte, n)
		ts := make([]*smt.Term, n)
		for k := 0; k < n; k++ {
			t, v := r.newVar(smt.BV8, "byte")
			bs[k] = byte(v)
			ts[k] = t
		}
		if n == 0 {
			return ""
		}
		return &symstr{s: string(bs), t: ts}
	case "Bool":
		t, v := r.newVar(smt.Bool, "bool")
		return sym{c: v != 0, t: t}
	case "Int32":
		t, v := r.newVar(smt.BV32, "int32")
		return sym{c: int32(uint32(v)), t: t}
	case "Uint32":
		t, v := r.newVar(smt.BV32, "uint32")
		return sym{c: uint32(v), t: t}
	case "Int64":
		t, v := r.newVar(smt.BV64, "int64")
		return sym{c: int64(v), t: t}
	case "Uint64":
		t, v := r.newVar(smt.BV64, "uint64")
		return sym{c: v, t: t}
	case "Int":
		t, v := r.newVar(smt.BV64, "int")
		return sym{c: int(v), t: t}
	case "Float64":
		t, v := r.newVar(smt.BV64, "float64bits")
		return sym{c: math.Float64frombits(v), t: smt.App("(_ to_fp 11 53)", smt.FP64, t)}
	case "Float32":
		t, v := r.newVar(smt.BV32, "float32bits")
		return sym{c: math.Float32frombits(uint32(v)), t: smt.App("(_ to_fp 8 24)", smt.FP32, t)}
	case "Choose":
		k := int(i.intS(args[0], "Choose bound"))
		return i.chooseInt(k, "choose")
	case "Assume":
		if !i.decide(args[0], BrAssume, callerSite(fr)) {
			panic(assumeFailed{callerSite(fr)})
		}
		return nil
	case "Assert":
		if !i.decide(args[0], BrAssert, callerSite(fr)) {
			msg, _ := strParts(args[1])
			panic(violation{msg + " (" + callerSite(fr) + ")"})
		}
		return nil
	case "Fail":
		msg, _ := strParts(args[0])
		panic(violation{msg + " (" + callerSite(fr) + ")"})
	case "Cover":
		l, _ := strParts(args[0])
		r.covers[l]++
		return nil
	case "MapOrder":
		r.mapOrder = i.decide(args[0], BrIf, "MapOrder")
		return nil
	case "Try":
		return i.try(fr, args[0])
	case "ObserveString":
		l, _ := strParts(args[0])
		s, _ := strParts(args[1])
		r.observed = append(r.observed, fmt.Sprintf("%s=%q", l, s))
		return nil
	case "ObserveInt":
		l, _ := strParts(args[0])
		r.observed = append(r.observed, fmt.Sprintf("%s=%d", l, asInt64(conc(args[1]))))
		return nil
	case "ObserveBool":
		l, _ := strParts(args[0])
		r.observed = append(r.observed, fmt.Sprintf("%s=%v", l, conc(args[1])))
		return nil
	case "PoolReuse":
		i.poolReuse = args[0].(bool)
		return nil
	case "Native", "Free":
		return false
	}
	if i.raceIntrinsic(name, args) {
		return nil
	}
	panic(engineErrorf("unknown zzverif function %s", name))
}

func callerSite(fr *frame) string {
	if fr.caller == nil {
		return ""
	}
	// position of the call instruction in the caller is not recorded in the
	// frame; use the caller function name
	return fr.caller.fn.String()
}

// try runs f and reports whether a target panic escaped it.
func (i *interpreter) try(fr *frame, f value) (res value) {
	defer func() {
		r := recover()
		if r == nil {
			return
		}
		site := i.run.panicSite
		switch r := r.(type) {
		case targetPanic:
			i.run.panicSite = ""
			i.run.triedSites = append(i.run.triedSites, site)
			res = tuple{true, i.panicString(r.v)}
		case runtimePanic:
			i.run.panicSite = ""
			i.run.triedSites = append(i.run.triedSites, site)
			res = tuple{true, r.msg}
		default:
			panic(r)
		}
	}()
	call(i, fr, token.NoPos, f, nil)
	return tuple{false, ""}
}
