// Copyright 2013 The Go Authors. All rights reserved.
// Use of this source code is governed by a BSD-style
// license that can be found in the LICENSE file.

// Package ssa/interp defines an interpreter for the SSA
// representation of Go programs.
//
// This interpreter is provided as an adjunct for testing the SSA
// construction algorithm.  Its purpose is to provide a minimal
// metacircular implementation of the dynamic semantics of each SSA
// instruction.  It is not, and will never be, a production-quality Go
// interpreter.
//
// The following is a partial list of Go features that are currently
// unsupported or incomplete in the interpreter.
//
// * Unsafe operations, including all uses of unsafe.Pointer, are
// impossible to support given the "boxed" value representation we
// have chosen.
//
// * The reflect package is only partially implemented.
//
// * The "testing" package is no longer supported because it
// depends on low-level details that change too often.
//
// * "sync/atomic" operations are not atomic due to the "boxed" value
// representation: it is not possible to read, modify and write an
// interface value atomically. As a consequence, Mutexes are currently
// broken.
//
// * recover is only partially implemented.  Also, the interpreter
// makes no attempt to distinguish target panics from interpreter
// crashes.
//
// * the sizes of the int, uint and uintptr types in the target
// program are assumed to be the same as those of the interpreter
// itself.
//
// * all values occupy space, even those of types defined by the spec
// to have zero size, e.g. struct{}.  This can cause asymptotic
// performance degradation.
//
// * os.Exit is implemented using panic, causing deferred functions to
// run.
package interp // import "golang.org/x/tools/go/ssa/interp"

import (
	"fmt"
	"go/ast"
	"go/token"
	"go/types"
	"log"
	"os"
	"runtime"
	"runtime/debug"
	"slices"
	"strings"
	"sync"

	"golang.org/x/tools/go/ssa"
)

type continuation int

const (
	kNext continuation = iota
	kReturn
	kJump
)

// Mode is a bitmask of options affecting the interpreter.
type Mode uint

const (
	DisableRecover Mode = 1 << iota // Disable recover() in target programs; show interpreter crash instead.
	EnableTracing                   // Print a trace of all instructions as they are interpreted.
)

type methodSet map[string]*ssa.Function

// State shared between all interpreted goroutines.
type interpreter struct {
	*Program
	globals map[*ssa.Global]*value // addresses of global variables (immutable)
	mode    Mode                   // interpreter options
	run     *runState              // the current run
	inited  map[*ssa.Package]bool  // packages whose init ran (or is running)

	forcing       map[*ssa.Package]bool
	unsafeData    map[*value][]value
	onceDone      map[*value]bool
	syncMaps      map[*value]*smap
	gcReturnOrder map[*ssa.Function]bool
	poolReuse     bool
	pools         map[*value][]value

	// thread mode: interpreted goroutines run on native goroutines; the
	// harness scheduler (zzverif.RunThreads) guarantees only one is ever
	// runnable, so interpreter state needs no locking. abort is closed when
	// any thread ends the run (or when the run is over) so that every
	// goroutine parked in a channel operation unwinds.
	race *raceState
	// gil: only the goroutine holding it interprets; it is released while a
	// goroutine is parked in a channel operation. (The harness scheduler hands
	// its baton through channels, but between a send and the sender's next
	// blocking receive both sides would otherwise run.)
	gil       sync.Mutex
	abort     chan struct{}
	abortOnce sync.Once
	abortVal  interface{}
	threads   int
}

// selfResultStore: "return t, f(&t)" with t a named result. The spec leaves
// the order of reading t and calling f open. go/ssa compiles the statement as
// the parallel assignment t, err = t, f(&t): it loads t, calls f, stores the
// OLD value back into t and returns it. The gc compiler elides the
// self-assignment t = t, so the caller sees what f wrote (and
// restlicodec.UnmarshalRestLi relies on that for typeref and custom keys).
// The native build is the reference, so in functions whose syntax contains
// such a return statement the engine skips a store of a named result into
// itself.
func (i *interpreter) selfResultStore(fr *frame, st *ssa.Store) bool {
	al, ok := st.Addr.(*ssa.Alloc)
	if !ok {
		return false
	}
	ld, ok := st.Val.(*ssa.UnOp)
	if !ok || ld.Op != token.MUL || ld.X != ssa.Value(al) {
		return false
	}
	fn := fr.fn
	is, cached := i.gcReturnOrder[fn]
	if !cached {
		is = hasSelfResultReturn(fn)
		if i.gcReturnOrder == nil {
			i.gcReturnOrder = map[*ssa.Function]bool{}
		}
		i.gcReturnOrder[fn] = is
	}
	if !is {
		return false
	}
	results := fn.Signature.Results()
	for k := 0; k < results.Len(); k++ {
		if results.At(k).Name() != "" && results.At(k).Name() == al.Comment {
			return true
		}
	}
	return false
}

func hasSelfResultReturn(fn *ssa.Function) bool {
	src := fn
	if fn.Origin() != nil {
		src = fn.Origin()
	}
	decl, ok := src.Syntax().(*ast.FuncDecl)
	if !ok || decl.Type.Results == nil || decl.Body == nil {
		return false
	}
	var names []string
	for _, f := range decl.Type.Results.List {
		for _, n := range f.Names {
			names = append(names, n.Name)
		}
	}
	if len(names) < 2 {
		return false
	}
	found := false
	ast.Inspect(decl.Body, func(n ast.Node) bool {
		if _, isLit := n.(*ast.FuncLit); isLit {
			return false
		}
		ret, ok := n.(*ast.ReturnStmt)
		if !ok || len(ret.Results) != len(names) {
			return true
		}
		self, call := false, false
		for k, e := range ret.Results {
			if id, ok := e.(*ast.Ident); ok && id.Name == names[k] {
				self = true
				continue
			}
			ast.Inspect(e, func(m ast.Node) bool {
				if _, ok := m.(*ast.CallExpr); ok {
					call = true
				}
				return true
			})
		}
		if self && call {
			found = true
		}
		return true
	})
	return found
}

// verifInterpreted names the zzverif functions whose bodies the engine runs
// (the cooperative scheduler); everything else in zzverif is an intrinsic.
var verifInterpreted = map[string]bool{
	"Go": true, "Yield": true, "WaitUntil": true, "RunThreads": true, "threadMain": true, "ThreadID": true, "init": true,
	"runFree": true,
}

// threadAbort unwinds a parked goroutine after the run has ended.
type threadAbort struct{}

type deferred struct {
	fn    value
	args  []value
	instr *ssa.Defer
	tail  *deferred
}

type frame struct {
	i                *interpreter
	caller           *frame
	fn               *ssa.Function
	block, prevBlock *ssa.BasicBlock
	env              map[ssa.Value]value // dynamic values of SSA variables
	locals           []value
	defers           *deferred
	result           value
	panicking        bool
	panic            interface{}
	phitemps         []value // temporaries for parallel phi assignment
	depth            int
	cur              ssa.Instruction
}

func (fr *frame) get(key ssa.Value) value {
	switch key := key.(type) {
	case nil:
		// Hack; simplifies handling of optional attributes
		// such as ssa.Slice.{Low,High}.
		return nil
	case *ssa.Function, *ssa.Builtin:
		return key
	case *ssa.Const:
		return constValue(key)
	case *ssa.Global:
		return fr.i.global(key)
	}
	if r, ok := fr.env[key]; ok {
		return r
	}
	panic(fmt.Sprintf("get: no value for %T: %v", key, key.Name()))
}

// runDefer runs a deferred call d.
// It always returns normally, but may set or clear fr.panic.
func (fr *frame) runDefer(d *deferred) {
	if fr.i.mode&EnableTracing != 0 {
		fmt.Fprintf(os.Stderr, "%s: invoking deferred function call\n",
			fr.i.prog.Fset.Position(d.instr.Pos()))
	}
	var ok bool
	defer func() {
		if !ok {
			// Deferred call created a new state of panic.
			r := recover()
			if !isTargetPanic(r) {
				panic(asEngineError(r))
			}
			fr.panicking = true
			fr.panic = r
		}
	}()
	call(fr.i, fr, d.instr.Pos(), d.fn, d.args)
	ok = true
}

// runDefers executes fr's deferred function calls in LIFO order.
//
// On entry, fr.panicking indicates a state of panic; if
// true, fr.panic contains the panic value.
//
// On completion, if a deferred call started a panic, or if no
// deferred call recovered from a previous state of panic, then
// runDefers itself panics after the last deferred call has run.
//
// If there was no initial state of panic, or it was recovered from,
// runDefers returns normally.
func (fr *frame) runDefers() {
	for d := fr.defers; d != nil; d = d.tail {
		fr.runDefer(d)
	}
	fr.defers = nil
	if fr.panicking {
		panic(fr.panic) // new panic, or still panicking
	}
}

// lookupMethod returns the method set for type typ, which may be one
// of the interpreter's fake types.
func lookupMethod(i *interpreter, typ types.Type, meth *types.Func) *ssa.Function {
	switch typ {
	case rtypeType:
		return i.rtypeMethods[meth.Id()]
	case errorType:
		return i.errorMethods[meth.Id()]
	}
	return i.prog.LookupMethod(typ, meth.Pkg(), meth.Name())
}

// visitInstr interprets a single ssa.Instruction within the activation
// record frame.  It returns a continuation value indicating where to
// read the next instruction from.
func visitInstr(fr *frame, instr ssa.Instruction) continuation {
	switch instr := instr.(type) {
	case *ssa.DebugRef:
		// no-op

	case *ssa.UnOp:
		x := fr.get(instr.X)
		if fr.i.race != nil && instr.Op == token.MUL {
			if p, ok := x.(*value); ok && p != nil {
				fr.i.raceRead(p, instr)
			}
		}
		fr.env[instr] = fr.i.unop(instr, x)

	case *ssa.BinOp:
		fr.env[instr] = fr.i.binop(instr.Op, instr.X.Type(), fr.get(instr.X), fr.get(instr.Y))

	case *ssa.Call:
		fn, args := prepareCall(fr, &instr.Call)
		fr.env[instr] = call(fr.i, fr, instr.Pos(), fn, args)

	case *ssa.ChangeInterface:
		fr.env[instr] = fr.get(instr.X)

	case *ssa.ChangeType:
		fr.env[instr] = fr.get(instr.X) // (can't fail)

	case *ssa.Convert:
		fr.env[instr] = fr.i.conv(instr.Type(), instr.X.Type(), fr.get(instr.X))

	case *ssa.SliceToArrayPointer:
		fr.env[instr] = sliceToArrayPointer(instr.Type(), instr.X.Type(), fr.get(instr.X))

	case *ssa.MakeInterface:
		fr.env[instr] = iface{t: instr.X.Type(), v: fr.get(instr.X)}

	case *ssa.Extract:
		fr.env[instr] = fr.get(instr.Tuple).(tuple)[instr.Index]

	case *ssa.Slice:
		fr.env[instr] = fr.i.slice(fr.get(instr.X), fr.get(instr.Low), fr.get(instr.High), fr.get(instr.Max))

	case *ssa.Return:
		switch len(instr.Results) {
		case 0:
		case 1:
			fr.result = fr.get(instr.Results[0])
		default:
			var res []value
			for k, r := range instr.Results {
				_ = k
				res = append(res, fr.get(r))
			}
			fr.result = tuple(res)
		}
		fr.block = nil
		return kReturn

	case *ssa.RunDefers:
		fr.runDefers()

	case *ssa.Panic:
		panic(targetPanic{fr.get(instr.X)})

	case *ssa.Send:
		fr.i.chanOpInThread(instr)
		fr.i.chanSend(fr.get(instr.Chan).(chan value), fr.get(instr.X))

	case *ssa.Store:
		addr := fr.get(instr.Addr).(*value)
		if addr == nil {
			panic(runtimePanic{"runtime error: invalid memory address or nil pointer dereference"})
		}
		if fr.i.selfResultStore(fr, instr) {
			break // see selfResultStore
		}
		if fr.i.race != nil {
			fr.i.raceWrite(addr, instr)
		}
		store(mustDeref(instr.Addr.Type()), addr, fr.get(instr.Val))

	case *ssa.If:
		succ := 1
		if fr.i.decide(fr.get(instr.Cond), BrIf, fr.i.site(instr)) {
			succ = 0
		}
		fr.prevBlock, fr.block = fr.block, fr.block.Succs[succ]
		return kJump

	case *ssa.Jump:
		fr.prevBlock, fr.block = fr.block, fr.block.Succs[0]
		return kJump

	case *ssa.Defer:
		fn, args := prepareCall(fr, &instr.Call)
		defers := &fr.defers
		if into := fr.get(instr.DeferStack); into != nil {
			defers = into.(**deferred)
		}
		*defers = &deferred{
			fn:    fn,
			args:  args,
			instr: instr,
			tail:  *defers,
		}

	case *ssa.Go:
		fn, args := prepareCall(fr, &instr.Call)
		fr.i.spawn(fr, instr, fn, args)

	case *ssa.MakeChan:
		fr.env[instr] = make(chan value, fr.i.intS(fr.get(instr.Size), "chan size"))

	case *ssa.Alloc:
		var addr *value
		if instr.Heap {
			// new
			addr = new(value)
			fr.env[instr] = addr
		} else {
			// local
			addr = fr.env[instr].(*value)
		}
		*addr = zero(mustDeref(instr.Type()))

	case *ssa.MakeSlice:
		capv := fr.i.intS(fr.get(instr.Cap), "make cap")
		lenv := fr.i.intS(fr.get(instr.Len), "make len")
		if lenv < 0 || capv < lenv || capv > 1<<26 {
			panic(runtimePanic{fmt.Sprintf("runtime error: makeslice: len/cap out of range (%d, %d)", lenv, capv)})
		}
		slice := make([]value, capv)
		tElt := instr.Type().Underlying().(*types.Slice).Elem()
		for i := range slice {
			slice[i] = zero(tElt)
		}
		fr.env[instr] = slice[:lenv]

	case *ssa.MakeMap:
		if instr.Reserve != nil {
			fr.i.intS(fr.get(instr.Reserve), "make map size")
		}
		fr.env[instr] = makeMap(instr.Type().Underlying().(*types.Map).Key(), 0)

	case *ssa.Range:
		if fr.i.race != nil {
			if m, ok := fr.get(instr.X).(*smap); ok && m != nil {
				fr.i.raceRead(m, instr)
			}
		}
		fr.env[instr] = fr.i.rangeIter(fr, fr.get(instr.X), instr.X.Type())

	case *ssa.Next:
		fr.env[instr] = fr.get(instr.Iter).(iter).next()

	case *ssa.FieldAddr:
		p := fr.get(instr.X).(*value)
		if p == nil {
			panic(runtimePanic{"runtime error: invalid memory address or nil pointer dereference"})
		}
		fr.env[instr] = &(*p).(structure)[instr.Field]

	case *ssa.Field:
		fr.env[instr] = fr.get(instr.X).(structure)[instr.Field]

	case *ssa.IndexAddr:
		x := fr.get(instr.X)
		idx := fr.get(instr.Index)
		var elems []value
		switch x := x.(type) {
		case []value:
			elems = x
		case *value: // *array
			if x == nil {
				panic(runtimePanic{"runtime error: invalid memory address or nil pointer dereference"})
			}
			elems = (*x).(array)
		}
		if s, ok := idx.(sym); ok && elems != nil && onlyLoaded(instr) {
			k := fr.i.boundsS(s, len(elems), "element")
			if _, ok := selectS(elems, s, k); ok {
				fr.env[instr] = &symref{elems: elems, idx: s, k: k}
				break
			}
			fr.env[instr] = &elems[fr.i.classifyIndex(elems, s, k)]
			break
		}
		switch x := x.(type) {
		case []value:
			fr.env[instr] = &x[fr.i.indexS(idx, len(x), "slice")]
		case *value: // *array
			a := (*x).(array)
			fr.env[instr] = &a[fr.i.indexS(idx, len(a), "array")]
		default:
			panic(fmt.Sprintf("unexpected x type in IndexAddr: %T", x))
		}

	case *ssa.Index:
		x := fr.get(instr.X)
		idx := fr.get(instr.Index)

		switch x := x.(type) {
		case array:
			fr.env[instr] = fr.i.indexValue(x, idx, "array")
		case string:
			if _, ok := idx.(sym); ok && len(x) <= 256 {
				fr.env[instr] = fr.i.indexValue(strToBytes(x), idx, "string")
			} else {
				fr.env[instr] = x[fr.i.indexS(idx, len(x), "string")]
			}
		case *symstr:
			if _, ok := idx.(sym); ok && len(x.s) <= 256 {
				fr.env[instr] = fr.i.indexValue(strToBytes(x), idx, "string")
			} else {
				fr.env[instr] = byteAt(x, fr.i.indexS(idx, len(x.s), "string"))
			}
		default:
			panic(fmt.Sprintf("unexpected x type in Index: %T", x))
		}

	case *ssa.Lookup:
		if fr.i.race != nil {
			if m, ok := fr.get(instr.X).(*smap); ok && m != nil {
				fr.i.raceRead(m, instr)
			}
		}
		fr.env[instr] = fr.i.lookup(instr, fr.get(instr.X), fr.get(instr.Index))

	case *ssa.MapUpdate:
		m := fr.get(instr.Map)
		key := fr.get(instr.Key)
		v := fr.get(instr.Value)
		switch m := m.(type) {
		case *smap:
			if fr.i.race != nil && m != nil {
				fr.i.raceWrite(m, instr)
			}
			m.insert(fr.i, key, v)
		default:
			panic(fmt.Sprintf("illegal map type: %T", m))
		}

	case *ssa.TypeAssert:
		fr.env[instr] = typeAssert(fr.i, instr, fr.get(instr.X).(iface))

	case *ssa.MakeClosure:
		var bindings []value
		for _, binding := range instr.Bindings {
			bindings = append(bindings, fr.get(binding))
		}
		fr.env[instr] = &closure{instr.Fn.(*ssa.Function), bindings}

	case *ssa.Phi:
		log.Fatal("unreachable") // phis are processed at block entry

	case *ssa.Select:
		fr.env[instr] = fr.i.selectInstr(fr, instr)

	default:
		panic(fmt.Sprintf("unexpected instruction: %T", instr))
	}

	// if val, ok := instr.(ssa.Value); ok {
	// 	fmt.Println(toString(fr.env[val])) // debugging
	// }

	return kNext
}

// onlyLoaded reports whether the address computed by instr is used only as
// the operand of loads.
func onlyLoaded(instr *ssa.IndexAddr) bool {
	refs := instr.Referrers()
	if refs == nil || len(*refs) == 0 {
		return false
	}
	for _, r := range *refs {
		u, ok := r.(*ssa.UnOp)
		if !ok || u.Op != token.MUL {
			return false
		}
	}
	return true
}

// prepareCall determines the function value and argument values for a
// function call in a Call, Go or Defer instruction, performing
// interface method lookup if needed.
func prepareCall(fr *frame, call *ssa.CallCommon) (fn value, args []value) {
	v := fr.get(call.Value)
	if call.Method == nil {
		// Function call.
		fn = v
	} else {
		// Interface method invocation.
		recv := v.(iface)
		if recv.t == nil {
			panic(runtimePanic{"runtime error: invalid memory address or nil pointer dereference (method call on nil interface)"})
		}
		if f := lookupMethod(fr.i, recv.t, call.Method); f == nil {
			// Unreachable in well-typed programs.
			panic(fmt.Sprintf("method set for dynamic type %v does not contain %s", recv.t, call.Method))
		} else {
			fn = f
		}
		args = append(args, recv.v)
	}
	for _, arg := range call.Args {
		args = append(args, fr.get(arg))
	}
	return
}

// call interprets a call to a function (function, builtin or closure)
// fn with arguments args, returning its result.
// callpos is the position of the callsite.
func call(i *interpreter, caller *frame, callpos token.Pos, fn value, args []value) value {
	switch fn := fn.(type) {
	case *ssa.Function:
		if fn == nil {
			panic(runtimePanic{"runtime error: invalid memory address or nil pointer dereference (call of nil func)"})
		}
		return callSSA(i, caller, callpos, fn, args, nil)
	case *closure:
		return callSSA(i, caller, callpos, fn.Fn, args, fn.Env)
	case *ssa.Builtin:
		return callBuiltin(caller, callpos, fn, args)
	}
	panic(fmt.Sprintf("cannot call %T", fn))
}

func loc(fset *token.FileSet, pos token.Pos) string {
	if pos == token.NoPos {
		return ""
	}
	return " at " + fset.Position(pos).String()
}

// callSSA interprets a call to function fn with arguments args,
// and lexical environment env, returning its result.
// callpos is the position of the callsite.
func callSSA(i *interpreter, caller *frame, callpos token.Pos, fn *ssa.Function, args []value, env []value) value {
	if i.mode&EnableTracing != 0 {
		fset := fn.Prog.Fset
		fmt.Fprintf(os.Stderr, "Entering %s%s.\n", fn, loc(fset, fn.Pos()))
		suffix := ""
		if caller != nil {
			suffix = ", resuming " + caller.fn.String() + loc(fset, callpos)
		}
		defer fmt.Fprintf(os.Stderr, "Leaving %s%s.\n", fn, suffix)
	}
	fr := &frame{
		i:      i,
		caller: caller, // for panic/recover
		fn:     fn,
	}
	if fn.Parent() == nil {
		name := fn.String()
		if fn.Pkg != nil && strings.HasSuffix(fn.Pkg.Pkg.Path(), "/zzverif") && !verifInterpreted[fn.Name()] {
			return verifIntrinsic(fr, fn.Name(), args)
		}
		if stub := i.stubs[name]; stub != nil && (caller == nil || caller.fn != stub) {
			i.run.noteCall(fn, true)
			return callSSA(i, caller, callpos, stub, args, nil)
		}
		if ext := externals[name]; ext != nil {
			if i.mode&EnableTracing != 0 {
				fmt.Fprintln(os.Stderr, "\t(external)")
			}
			if r := ext(fr, args); r != useBody {
				i.run.noteCall(fn, true)
				return r
			}
		}
		// Package initializers: repository packages run eagerly (Go
		// semantics), whitelisted library packages lazily on first access
		// to one of their globals, everything else never.
		if fn.Synthetic == "package initializer" && fn.Pkg != nil {
			if i.inited[fn.Pkg] {
				return nil
			}
			if !i.eagerInit(fn.Pkg) && !i.forcing[fn.Pkg] {
				return nil
			}
			i.inited[fn.Pkg] = true
		}
		if fn.Blocks == nil {
			panic(engineErrorf("no code for function: %s (called from %s)", name, callerName(caller)))
		}
	}
	i.run.noteCall(fn, false)

	// generic function body?
	if fn.TypeParams().Len() > 0 && len(fn.TypeArgs()) == 0 {
		panic("interp requires ssa.BuilderMode to include InstantiateGenerics to execute generics")
	}

	fr.env = make(map[ssa.Value]value)
	fr.block = fn.Blocks[0]
	fr.locals = make([]value, len(fn.Locals))
	for i, l := range fn.Locals {
		fr.locals[i] = zero(mustDeref(l.Type()))
		fr.env[l] = &fr.locals[i]
	}
	for i, p := range fn.Params {
		fr.env[p] = args[i]
	}
	for i, fv := range fn.FreeVars {
		fr.env[fv] = env[i]
	}
	if caller != nil {
		fr.depth = caller.depth + 1
		if fr.depth > 3000 {
			panic(budgetExceeded{"call depth > 3000 in " + fn.String()})
		}
	}
	for fr.block != nil {
		runFrame(fr)
	}
	// Destroy the locals to avoid accidental use after return.
	for i := range fn.Locals {
		fr.locals[i] = bad{}
	}
	return fr.result
}

func callerName(fr *frame) string {
	if fr == nil || fr.fn == nil {
		return "<top>"
	}
	return fr.fn.String()
}

// budgetExceeded aborts a run that exceeded its instruction budget (the
// engine's unwinding assertion).
type budgetExceeded struct{ what string }

// assumeFailed aborts a run whose inputs violate a harness assumption.
type assumeFailed struct{ site string }

// violation aborts a run at a failed verif.Assert / verif.Fail.
type violation struct{ msg string }

func isTargetPanic(r interface{}) bool {
	switch r.(type) {
	case targetPanic, runtimePanic:
		return true
	}
	return false
}

// asEngineError wraps anything that is not a target panic or a run-control
// signal, capturing the interpreter stack once.
func asEngineError(r interface{}) interface{} {
	switch r := r.(type) {
	case targetPanic, runtimePanic, budgetExceeded, assumeFailed, violation, exitPanic, threadAbort:
		return r
	case engineError:
		if r.stack == "" {
			r.stack = string(debug.Stack())
		}
		return r
	case runtime.Error:
		return engineError{msg: "interpreter run-time error: " + r.Error(), stack: string(debug.Stack())}
	default:
		return engineError{msg: fmt.Sprintf("interpreter panic: %v", r), stack: string(debug.Stack())}
	}
}

// runFrame executes SSA instructions starting at fr.block and
// continuing until a return, a panic, or a recovered panic.
//
// After a target panic, runFrame runs the frame's deferred calls and either
// resumes at the Recover block or re-panics. Anything else (engine errors,
// run-control signals) propagates untouched.
func runFrame(fr *frame) {
	defer func() {
		if fr.block == nil {
			return // normal return
		}
		r := recover()
		if !isTargetPanic(r) {
			e := asEngineError(r)
			if ee, ok := e.(engineError); ok && !strings.Contains(ee.msg, "\n  target stack:") {
				var sb strings.Builder
				sb.WriteString(ee.msg + "\n  target stack:")
				for f := fr; f != nil; f = f.caller {
					where := ""
					if f.cur != nil {
						where = fr.i.site(f.cur)
					}
					sb.WriteString("\n    " + f.fn.String() + " @ " + where)
				}
				ee.msg = sb.String()
				e = ee
			}
			panic(e)
		}
		if fr.i.run.panicSite == "" && fr.cur != nil {
			fr.i.run.panicSite = fr.fn.String() + " @ " + fr.i.site(fr.cur)
		}
		fr.panicking = true
		fr.panic = r
		if fr.i.mode&EnableTracing != 0 {
			fmt.Fprintf(os.Stderr, "Panicking: %T %v.\n", fr.panic, fr.panic)
		}
		fr.runDefers()
		fr.block = fr.fn.Recover
		if fr.block == nil {
			// recovered in a function without a recover block: return zero results
			fr.result = zeroResults(fr.fn)
		}
	}()

	run := fr.i.run
	for {
		if fr.i.mode&EnableTracing != 0 {
			fmt.Fprintf(os.Stderr, ".%s:\n", fr.block)
		}

		nonPhis := executePhis(fr)
		run.steps += int64(len(nonPhis))
		if run.steps > run.budget {
			panic(budgetExceeded{fmt.Sprintf("instruction budget %d exhausted in %s", run.budget, fr.fn)})
		}
		for _, instr := range nonPhis {
			if fr.i.mode&EnableTracing != 0 {
				if v, ok := instr.(ssa.Value); ok {
					fmt.Fprintln(os.Stderr, "\t", v.Name(), "=", instr)
				} else {
					fmt.Fprintln(os.Stderr, "\t", instr)
				}
			}
			fr.cur = instr
			if fr.i.race != nil {
				fr.i.race.cur = instr
			}
			if visitInstr(fr, instr) == kReturn {
				return
			}
			// Inv: kNext (continue) or kJump (last instr)
		}
	}
}

func zeroResults(fn *ssa.Function) value {
	res := fn.Signature.Results()
	switch res.Len() {
	case 0:
		return nil
	case 1:
		return zero(res.At(0).Type())
	}
	t := make(tuple, res.Len())
	for k := range t {
		t[k] = zero(res.At(k).Type())
	}
	return t
}

// executePhis executes the phi-nodes at the start of the current
// block and returns the non-phi instructions.
func executePhis(fr *frame) []ssa.Instruction {
	firstNonPhi := -1
	for i, instr := range fr.block.Instrs {
		if _, ok := instr.(*ssa.Phi); !ok {
			firstNonPhi = i
			break
		}
	}
	// Inv: 0 <= firstNonPhi; every block contains a non-phi.

	nonPhis := fr.block.Instrs[firstNonPhi:]
	if firstNonPhi > 0 {
		phis := fr.block.Instrs[:firstNonPhi]
		// Execute parallel assignment of phis.
		predIndex := slices.Index(fr.block.Preds, fr.prevBlock)
		fr.phitemps = fr.phitemps[:0]
		for _, phi := range phis {
			phi := phi.(*ssa.Phi)
			fr.phitemps = append(fr.phitemps, fr.get(phi.Edges[predIndex]))
		}
		for i, phi := range phis {
			fr.env[phi.(*ssa.Phi)] = fr.phitemps[i]
		}
	}
	return nonPhis
}

// doRecover implements the recover() built-in.
func doRecover(caller *frame) value {
	// recover() must be exactly one level beneath the deferred
	// function (two levels beneath the panicking function) to
	// have any effect.  Thus we ignore both "defer recover()" and
	// "defer f() -> g() -> recover()".
	if caller != nil && !caller.panicking &&
		caller.caller != nil && caller.caller.panicking {
		caller.caller.panicking = false
		p := caller.caller.panic
		caller.caller.panic = nil
		caller.i.run.recovered++
		caller.i.run.recoveredSites = append(caller.i.run.recoveredSites, caller.i.run.panicSite)
		caller.i.run.panicSite = ""

		switch p := p.(type) {
		case targetPanic:
			// The target program explicitly called panic().
			return p.v
		case runtimePanic:
			return iface{caller.i.runtimeErrorString, p.msg}
		default:
			panic(fmt.Sprintf("unexpected panic type %T in target call to recover()", p))
		}
	}
	return iface{}
}

var _ = log.Fatal
