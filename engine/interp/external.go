// Copyright 2013 The Go Authors. All rights reserved.
// Use of this source code is governed by a BSD-style
// license that can be found in the LICENSE file.

package interp

// Engine intrinsics: functions that have no interpretable body (assembly,
// unsafe, runtime hooks, reflection-heavy formatting) are given
// semantics-preserving implementations here. The table is printed into the
// evidence (RunResult.Externals) so the trusted boundary is explicit.

import (
	"fmt"
	"go/token"
	"go/types"
	"math"
	"strconv"
	"strings"

	"golang.org/x/tools/go/ssa"

	"gosym/smt"
)

type externalFn func(fr *frame, args []value) value

// useBody is returned by an external that declines (e.g. symbolic arguments):
// the function's real SSA body is executed instead.
type useBodyT struct{}

var useBody = useBodyT{}

// Key strings are from Function.String().
var externals = make(map[string]externalFn)

func init() {
	for k, v := range map[string]externalFn{
		"(reflect.Value).Bool":         ext۰reflect۰Value۰Bool,
		"(reflect.Value).Bytes":        ext۰reflect۰Value۰Bytes,
		"(reflect.Value).Convert":      ext۰reflect۰Value۰Convert,
		"(reflect.Value).CanConvert":   ext۰reflect۰Value۰CanConvert,
		"(reflect.Value).CanAddr":      ext۰reflect۰Value۰CanAddr,
		"errors.As":                    extErrorsAs,
		"errors.Is":                    extErrorsIs,
		"(reflect.Value).CanInterface": ext۰reflect۰Value۰CanInterface,
		"(reflect.Value).CanInt":       ext۰reflect۰Value۰CanInt,
		"(reflect.Value).CanFloat":     ext۰reflect۰Value۰CanFloat,
		"(reflect.Value).MapRange":     ext۰reflect۰Value۰MapRange,
		"(*reflect.MapIter).Next":      ext۰reflect۰MapIter۰Next,
		"(*reflect.MapIter).Key":       ext۰reflect۰MapIter۰Key,
		"(*reflect.MapIter).Value":     ext۰reflect۰MapIter۰Value,
		"(reflect.rtype).Key":          ext۰reflect۰rtype۰Key,
		"(reflect.Value).Elem":         ext۰reflect۰Value۰Elem,
		"(reflect.Value).Field":        ext۰reflect۰Value۰Field,
		"(reflect.Value).Float":        ext۰reflect۰Value۰Float,
		"(reflect.Value).Index":        ext۰reflect۰Value۰Index,
		"(reflect.Value).Int":          ext۰reflect۰Value۰Int,
		"(reflect.Value).Interface":    ext۰reflect۰Value۰Interface,
		"(reflect.Value).IsNil":        ext۰reflect۰Value۰IsNil,
		"(reflect.Value).IsValid":      ext۰reflect۰Value۰IsValid,
		"(reflect.Value).Kind":         ext۰reflect۰Value۰Kind,
		"(reflect.Value).Len":          ext۰reflect۰Value۰Len,
		"(reflect.Value).NumField":     ext۰reflect۰Value۰NumField,
		"(reflect.Value).NumMethod":    ext۰reflect۰Value۰NumMethod,
		"(reflect.Value).Pointer":      ext۰reflect۰Value۰Pointer,
		"(reflect.Value).Set":          ext۰reflect۰Value۰Set,
		"(reflect.Value).String":       ext۰reflect۰Value۰String,
		"(reflect.Value).Type":         ext۰reflect۰Value۰Type,
		"(reflect.Value).Uint":         ext۰reflect۰Value۰Uint,
		"(reflect.error).Error":        ext۰reflect۰error۰Error,
		"(reflect.rtype).Bits":         ext۰reflect۰rtype۰Bits,
		"(reflect.rtype).Elem":         ext۰reflect۰rtype۰Elem,
		"(reflect.rtype).Field":        ext۰reflect۰rtype۰Field,
		"(reflect.rtype).In":           ext۰reflect۰rtype۰In,
		"(reflect.rtype).Kind":         ext۰reflect۰rtype۰Kind,
		"(reflect.rtype).NumField":     ext۰reflect۰rtype۰NumField,
		"(reflect.rtype).NumIn":        ext۰reflect۰rtype۰NumIn,
		"(reflect.rtype).NumMethod":    ext۰reflect۰rtype۰NumMethod,
		"(reflect.rtype).NumOut":       ext۰reflect۰rtype۰NumOut,
		"(reflect.rtype).Out":          ext۰reflect۰rtype۰Out,
		"(reflect.rtype).Size":         ext۰reflect۰rtype۰Size,
		"(reflect.rtype).String":       ext۰reflect۰rtype۰String,
		"reflect.New":                  ext۰reflect۰New,
		"reflect.SliceOf":              ext۰reflect۰SliceOf,
		"reflect.TypeOf":               ext۰reflect۰TypeOf,
		"reflect.ValueOf":              ext۰reflect۰ValueOf,
		"reflect.Zero":                 ext۰reflect۰Zero,

		// math
		"math.Float32bits":     extFloat32bits,
		"math.Float32frombits": extFloat32frombits,
		"math.Float64bits":     extFloat64bits,
		"math.Float64frombits": extFloat64frombits,

		// formatting: opaque
		"fmt.Sprintf":  extSprintf,
		"fmt.Errorf":   extErrorf,
		"fmt.Sprint":   extSprint,
		"fmt.Sprintln": extSprint,
		"fmt.Fprintf":  extFprintf,
		"fmt.Fprint":   extFprint,
		"fmt.Fprintln": extFprint,
		"fmt.Printf":   extPrintNothing,
		"fmt.Println":  extPrintNothing,
		"fmt.Print":    extPrintNothing,
		"log.Printf":   extNop,
		"log.Println":  extNop,
		"log.Print":    extNop,
		"log.New": func(fr *frame, args []value) value {
			pkg := fr.i.prog.ImportedPackage("log")
			cell := zero(pkg.Type("Logger").Object().Type())
			return &cell
		},
		"log.SetFlags":  extNop,
		"log.SetPrefix": extNop,
		"log.SetOutput": extNop,
		"log.Panicf": func(fr *frame, args []value) value {
			panic(targetPanic{iface{t: types.Typ[types.String], v: fr.i.formatOpaque(args[0], args[1])}})
		},
		"log.Fatalf": func(fr *frame, args []value) value {
			panic(targetPanic{iface{t: types.Typ[types.String], v: "log.Fatalf: " + fr.i.formatOpaque(args[0], args[1])}})
		},
		"log.Output":            extNilError,
		"(*log.Logger).Printf":  extNop,
		"(*log.Logger).Println": extNop,
		"(*log.Logger).Output":  extNilError,
		"runtime/debug.Stack":   func(fr *frame, args []value) value { return strToBytes("<stack>") },
		"runtime.Caller":        func(fr *frame, args []value) value { return tuple{uintptr(0), "", 0, false} },
		"runtime.Callers":       func(fr *frame, args []value) value { return 0 },
		"runtime.Gosched":       extNop,
		"runtime.KeepAlive":     extNop,
		"runtime.SetFinalizer":  extNop,
		"os.Exit":               func(fr *frame, args []value) value { panic(exitPanic(asInt64(args[0]))) },
		"os.Getenv":             func(fr *frame, args []value) value { return "" },

		// sync (single-threaded semantics)
		"(*sync.Once).Do":           extOnceDo,
		"(*sync.Pool).Get":          extPoolGet,
		"(*sync.Pool).Put":          extPoolPut,
		"(*sync.Mutex).Lock":        extLockHB,
		"(*sync.Mutex).Unlock":      extUnlockHB,
		"(*sync.Mutex).TryLock":     func(fr *frame, args []value) value { return true },
		"(*sync.RWMutex).Lock":      extLockHB,
		"(*sync.RWMutex).Unlock":    extUnlockHB,
		"(*sync.RWMutex).RLock":     extLockHB,
		"(*sync.RWMutex).RUnlock":   extUnlockHB,
		"(*sync.Map).Load":          extSyncMapLoad,
		"(*sync.Map).Store":         extSyncMapStore,
		"(*sync.Map).LoadOrStore":   extSyncMapLoadOrStore,
		"(*sync.Map).Delete":        extSyncMapDelete,
		"(*sync.Map).Range":         extSyncMapRange,
		"(*sync.Map).LoadAndDelete": extSyncMapLoadAndDelete,

		// sync/atomic
		"sync/atomic.LoadInt32":             extAtomicLoad,
		"sync/atomic.LoadInt64":             extAtomicLoad,
		"sync/atomic.LoadUint32":            extAtomicLoad,
		"sync/atomic.LoadUint64":            extAtomicLoad,
		"sync/atomic.LoadUintptr":           extAtomicLoad,
		"sync/atomic.LoadPointer":           extAtomicLoad,
		"sync/atomic.StoreInt32":            extAtomicStore,
		"sync/atomic.StoreInt64":            extAtomicStore,
		"sync/atomic.StoreUint32":           extAtomicStore,
		"sync/atomic.StoreUint64":           extAtomicStore,
		"sync/atomic.StoreUintptr":          extAtomicStore,
		"sync/atomic.StorePointer":          extAtomicStore,
		"sync/atomic.AddInt32":              extAtomicAdd,
		"sync/atomic.AddInt64":              extAtomicAdd,
		"sync/atomic.AddUint32":             extAtomicAdd,
		"sync/atomic.AddUint64":             extAtomicAdd,
		"sync/atomic.CompareAndSwapInt32":   extAtomicCAS,
		"sync/atomic.CompareAndSwapInt64":   extAtomicCAS,
		"sync/atomic.CompareAndSwapUint32":  extAtomicCAS,
		"sync/atomic.CompareAndSwapUint64":  extAtomicCAS,
		"sync/atomic.CompareAndSwapPointer": extAtomicCAS,
		"sync/atomic.SwapInt32":             extAtomicSwap,
		"sync/atomic.SwapInt64":             extAtomicSwap,
		"sync/atomic.SwapUint32":            extAtomicSwap,
		"sync/atomic.SwapUint64":            extAtomicSwap,

		// sort
		"sort.Slice":       extSortSlice,
		"sort.SliceStable": extSortSlice,

		// strings / bytes kernels
		"(*strings.Builder).String":                    extBuilderString,
		"(*strings.Builder).copyCheck":                 extNop,
		"strings.Clone":                                func(fr *frame, args []value) value { return args[0] },
		"internal/stringslite.Clone":                   func(fr *frame, args []value) value { return args[0] },
		"strings.Index":                                extStringsIndex,
		"strings.IndexByte":                            extStringsIndexByte,
		"strings.Count":                                extUseBodyIfSym(func(fr *frame, args []value) value { return strings.Count(args[0].(string), args[1].(string)) }),
		"bytes.IndexByte":                              extBytesIndexByte,
		"internal/bytealg.IndexByte":                   extBytesIndexByte,
		"internal/bytealg.IndexByteString":             extStringsIndexByte,
		"internal/bytealg.IndexString":                 extStringsIndex,
		"internal/bytealg.MakeNoZero":                  extMakeNoZero,
		"internal/bytealg.CountString":                 extCountString,
		"internal/bytealg.Count":                       extCountBytes,
		"internal/stringslite.Index":                   extStringsIndex,
		"internal/stringslite.IndexByte":               extStringsIndexByte,
		"internal/abi.NoEscape":                        func(fr *frame, args []value) value { return args[0] },
		"github.com/mailru/easyjson/jlexer.bytesToStr": func(fr *frame, args []value) value { return bytesToStr(args[0].([]value)) },
		"github.com/mailru/easyjson/jlexer.strToBytes": func(fr *frame, args []value) value { return strToBytes(args[0]) },

		// encoding/json scanner pool (its package init is not interpretable)
		"encoding/json.newScanner": func(fr *frame, args []value) value {
			pkg := fr.i.prog.ImportedPackage("encoding/json")
			st := pkg.Type("scanner").Object().Type()
			cell := zero(st)
			p := &cell
			for _, m := range []string{"reset"} {
				fn := fr.i.prog.LookupMethod(types.NewPointer(st), pkg.Pkg, m)
				call(fr.i, fr, token.NoPos, fn, []value{p})
			}
			return p
		},
		"encoding/json.freeScanner": extNop,

		// clock: a fixed instant (2024-01-01T00:00:00Z); no property depends on time
		"time.now": func(fr *frame, args []value) value {
			return tuple{int64(1704067200), int32(0), int64(1704067200000000000)}
		},
		"time.Now":         func(fr *frame, args []value) value { return structure{uint64(0), int64(63839664000), (*value)(nil)} },
		"time.runtimeNano": func(fr *frame, args []value) value { return int64(1704067200000000000) },
		"runtime.nanotime": func(fr *frame, args []value) value { return int64(1704067200000000000) },

		// context.WithValue without the reflectlite comparability check
		"context.WithValue": func(fr *frame, args []value) value {
			if args[0].(iface).t == nil {
				panic(targetPanic{iface{t: types.Typ[types.String], v: "cannot create context from nil parent"}})
			}
			if args[1].(iface).t == nil {
				panic(targetPanic{iface{t: types.Typ[types.String], v: "nil key"}})
			}
			pkg := fr.i.prog.ImportedPackage("context")
			vt := pkg.Type("valueCtx").Object().Type()
			var cell value = structure{args[0], args[1], args[2]}
			return iface{t: types.NewPointer(vt), v: &cell}
		},

		// http.Client.Do = Transport.RoundTrip (no redirects, cookies or timeouts are in play)
		"(*net/http.Client).Do": func(fr *frame, args []value) value {
			c := args[0].(*value)
			if c == nil {
				panic(runtimePanic{"runtime error: invalid memory address or nil pointer dereference"})
			}
			tr := (*c).(structure)[0].(iface)
			if tr.t == nil {
				panic(engineErrorf("http.Client.Do stub: nil Transport (the default transport is not interpretable)"))
			}
			mset := fr.i.prog.MethodSets.MethodSet(tr.t)
			for k := 0; k < mset.Len(); k++ {
				if mset.At(k).Obj().Name() == "RoundTrip" {
					return call(fr.i, fr, token.NoPos, fr.i.prog.MethodValue(mset.At(k)), []value{tr.v, args[1]})
				}
			}
			panic(engineErrorf("http.Client.Do stub: Transport has no RoundTrip"))
		},

		// GODEBUG settings: always the default
		"(*internal/godebug.Setting).Value":         func(fr *frame, args []value) value { return "" },
		"(*internal/godebug.Setting).IncNonDefault": extNop,
		"(*internal/godebug.Setting).Name":          func(fr *frame, args []value) value { return "" },

		// go:linkname forwarders
		"mime/multipart.readMIMEHeader": func(fr *frame, args []value) value {
			return fr.i.callByName(fr, "net/textproto", "readMIMEHeader", args)
		},

		// crypto/rand is not interpretable: the multipart boundary is a fixed
		// 60-digit string (stub; inputs within the bounds cannot contain it)
		"mime/multipart.randomBoundary": func(fr *frame, args []value) value {
			return "5f0c1a2b3d4e5f60718293a4b5c6d7e8f90a1b2c3d4e5f60718293a4b5c6"
		},

		// strconv fast paths on concrete arguments
		"strconv.FormatFloat": extUseBodyIfSym(func(fr *frame, args []value) value {
			return strconv.FormatFloat(args[0].(float64), args[1].(byte), args[2].(int), args[3].(int))
		}),
		"strconv.AppendFloat": extUseBodyIfSym(func(fr *frame, args []value) value {
			b := strconv.AppendFloat(nil, args[1].(float64), args[2].(byte), args[3].(int), args[4].(int))
			return append(args[0].([]value), strToBytes(string(b))...)
		}),
		"strconv.Itoa": extUseBodyIfSym(func(fr *frame, args []value) value { return strconv.Itoa(args[0].(int)) }),
		"strconv.FormatInt": extUseBodyIfSym(func(fr *frame, args []value) value {
			return strconv.FormatInt(args[0].(int64), args[1].(int))
		}),
		"strconv.ParseFloat": extParseFloat,
	} {
		externals[k] = v
	}
}

func extNop(fr *frame, args []value) value { return nil }

func extNilError(fr *frame, args []value) value { return iface{} }

func extUseBodyIfSym(f externalFn) externalFn {
	return func(fr *frame, args []value) value {
		for _, a := range args {
			if deepSym(a) {
				return useBody
			}
		}
		return f(fr, args)
	}
}

// deepSym reports whether v is or (shallowly, for slices) contains a symbolic value.
func deepSym(v value) bool {
	switch v := v.(type) {
	case sym, *symstr:
		return true
	case []value:
		for _, e := range v {
			if isSym(e) {
				return true
			}
		}
	}
	return false
}

// ---------------------------------------------------------------------------
// math

func extFloat64bits(fr *frame, args []value) value {
	if s, ok := args[0].(sym); ok {
		c := math.Float64bits(s.c.(float64))
		if s.t.Op == "(_ to_fp 11 53)" && len(s.t.Args) == 1 {
			return mkSym(c, s.t.Args[0]) // exact inverse of Float64frombits
		}
		return mkSym(c, smt.App("fp.to_ieee_bv", smt.BV64, s.t))
	}
	return math.Float64bits(args[0].(float64))
}

func extFloat64frombits(fr *frame, args []value) value {
	if s, ok := args[0].(sym); ok {
		return mkSym(math.Float64frombits(s.c.(uint64)), smt.App("(_ to_fp 11 53)", smt.FP64, s.t))
	}
	return math.Float64frombits(args[0].(uint64))
}

func extFloat32bits(fr *frame, args []value) value {
	if s, ok := args[0].(sym); ok {
		c := math.Float32bits(s.c.(float32))
		if s.t.Op == "(_ to_fp 8 24)" && len(s.t.Args) == 1 {
			return mkSym(c, s.t.Args[0])
		}
		return mkSym(c, smt.App("fp.to_ieee_bv", smt.BV32, s.t))
	}
	return math.Float32bits(args[0].(float32))
}

func extFloat32frombits(fr *frame, args []value) value {
	if s, ok := args[0].(sym); ok {
		return mkSym(math.Float32frombits(s.c.(uint32)), smt.App("(_ to_fp 8 24)", smt.FP32, s.t))
	}
	return math.Float32frombits(args[0].(uint32))
}

// extParseFloat: concrete input -> native; symbolic input -> real body.
func extParseFloat(fr *frame, args []value) value {
	s, ok := args[0].(string)
	if !ok && !isSym(args[1]) {
		// Symbolic digits: ParseFloat is summarised by a nondeterministic
		// stub (any float64 of the requested size, or a *NumError). The
		// decimal-to-binary conversion multiplies symbolic mantissas, which
		// no available solver decides; the standard library function itself
		// is trusted not to panic.
		i := fr.i
		t, v := i.run.newVar(smt.Bool, "ParseFloat fails")
		if i.decide(sym{c: v != 0, t: t}, BrIf, "strconv.ParseFloat stub") {
			strconvPkg := i.prog.ImportedPackage("strconv")
			numErr := strconvPkg.Type("NumError").Object().Type()
			errSyntax := load(types.Universe.Lookup("error").Type(), i.global(strconvPkg.Var("ErrSyntax")))
			var cell value = structure{"ParseFloat", args[0], errSyntax}
			return tuple{float64(0), iface{t: types.NewPointer(numErr), v: &cell}}
		}
		if asInt64(args[1]) == 32 {
			ft, fv := i.run.newVar(smt.BV32, "float32bits")
			f32 := sym{c: math.Float32frombits(uint32(fv)), t: smt.App("(_ to_fp 8 24)", smt.FP32, ft)}
			return tuple{i.convS(types.Typ[types.Float64], types.Typ[types.Float32], f32), iface{}}
		}
		ft, fv := i.run.newVar(smt.BV64, "float64bits")
		return tuple{sym{c: math.Float64frombits(fv), t: smt.App("(_ to_fp 11 53)", smt.FP64, ft)}, iface{}}
	}
	if !ok || isSym(args[1]) {
		return useBody
	}
	f, err := strconv.ParseFloat(s, args[1].(int))
	if err != nil {
		// let the real body build the *NumError
		return useBody
	}
	return tuple{f, iface{}}
}

// ---------------------------------------------------------------------------
// opaque formatting

func (i *interpreter) nativeArg(v value) interface{} {
	switch v := v.(type) {
	case iface:
		if v.t == nil {
			return nil
		}
		if isSym(v.v) {
			return "<sym>"
		}
		if s, ok := i.textOf(v); ok {
			return s
		}
		return i.nativeArg(v.v)
	case sym, *symstr:
		return "<sym>"
	case bool, int, int8, int16, int32, int64, uint, uint8, uint16, uint32, uint64, uintptr, float32, float64, string:
		return v
	case []value:
		if len(v) > 0 {
			if _, ok := conc(v[0]).(byte); ok {
				b := make([]byte, len(v))
				for k := range v {
					c, ok := v[k].(byte)
					if !ok {
						return "<sym>"
					}
					b[k] = c
				}
				return b
			}
		}
		out := make([]interface{}, len(v))
		for k := range v {
			out[k] = i.nativeArg(v[k])
		}
		return out
	case *value:
		if v == nil {
			return nil
		}
		return fmt.Sprintf("%p", v)
	case nil:
		return nil
	}
	return fmt.Sprintf("<%T>", v)
}

func (i *interpreter) formatOpaque(format value, args value) string {
	f, _ := strParts(format)
	f = strings.ReplaceAll(f, "%w", "%v")
	var nat []interface{}
	if args != nil {
		for _, a := range args.([]value) {
			nat = append(nat, i.nativeArg(a))
		}
	}
	return fmt.Sprintf(f, nat...)
}

func extSprintf(fr *frame, args []value) value {
	return fr.i.formatOpaque(args[0], args[1])
}

func extErrorf(fr *frame, args []value) value {
	return iface{errorType, fr.i.formatOpaque(args[0], args[1])}
}

func extPrintNothing(fr *frame, args []value) value { return tuple{0, iface{}} }

// writeTo calls w.Write(p) on an io.Writer interface value.
func (i *interpreter) writeTo(fr *frame, w value, text string) value {
	itf := w.(iface)
	if itf.t == nil {
		panic(runtimePanic{"runtime error: invalid memory address or nil pointer dereference (nil io.Writer)"})
	}
	mset := i.prog.MethodSets.MethodSet(itf.t)
	for k := 0; k < mset.Len(); k++ {
		if mset.At(k).Obj().Name() == "Write" {
			fn := i.prog.MethodValue(mset.At(k))
			return call(i, fr, token.NoPos, fn, []value{itf.v, bytesWithCap(strToBytes(text))})
		}
	}
	panic(engineErrorf("writeTo: %s has no Write method", itf.t))
}

func extFprintf(fr *frame, args []value) value {
	return fr.i.writeTo(fr, args[0], fr.i.formatOpaque(args[1], args[2]))
}

func extFprint(fr *frame, args []value) value {
	text := extSprint(fr, args[1:]).(string)
	if fr.fn.Name() == "Fprintln" {
		text += "\n"
	}
	return fr.i.writeTo(fr, args[0], text)
}

func extSprint(fr *frame, args []value) value {
	var nat []interface{}
	for _, a := range args[0].([]value) {
		nat = append(nat, fr.i.nativeArg(a))
	}
	return fmt.Sprint(nat...)
}

// ---------------------------------------------------------------------------
// sync

func extOnceDo(fr *frame, args []value) value {
	// type Once struct { done atomic.Uint32; m Mutex }  (field order differs across Go versions)
	p := args[0].(*value)
	st := (*p).(structure)
	// find the "done" field: it is the first field that is an atomic struct or uint32
	key := p
	if fr.i.onceDone == nil {
		fr.i.onceDone = map[*value]bool{}
	}
	_ = st
	if fr.i.onceDone[key] {
		fr.i.hbAcquire(key)
		return nil
	}
	fr.i.onceDone[key] = true
	call(fr.i, fr, token.NoPos, args[1], nil)
	fr.i.hbRelease(key)
	return nil
}

// Uninstrumented mutexes (standard library, dependencies): no blocking is
// modelled (no scheduling point lies inside their critical sections), but
// the happens-before edge is.
func extLockHB(fr *frame, args []value) value {
	fr.i.hbAcquire(hbKey(args[0]))
	return nil
}

func extUnlockHB(fr *frame, args []value) value {
	fr.i.hbRelease(hbKey(args[0]))
	return nil
}

// sync.Pool: by default Get always misses (calls New), which is a legal
// behaviour of the real pool. After zzverif.PoolReuse(true) the pool behaves
// the way it does for a single goroutine between garbage collections: Get
// returns the object Put most recently (LIFO).
func extPoolPut(fr *frame, args []value) value {
	if !fr.i.poolReuse {
		return nil
	}
	p := args[0].(*value)
	if itf, ok := args[1].(iface); ok && itf.t == nil {
		return nil // Put(nil) is ignored
	}
	if fr.i.pools == nil {
		fr.i.pools = map[*value][]value{}
	}
	fr.i.pools[p] = append(fr.i.pools[p], args[1])
	return nil
}

func extPoolGet(fr *frame, args []value) value {
	p := args[0].(*value)
	if fr.i.poolReuse {
		if st := fr.i.pools[p]; len(st) > 0 {
			v := st[len(st)-1]
			fr.i.pools[p] = st[:len(st)-1]
			return v
		}
	}
	st := (*p).(structure)
	newFn := st[len(st)-1]
	switch f := newFn.(type) {
	case *ssa.Function:
		if f == nil {
			return iface{}
		}
	case nil:
		return iface{}
	}
	return call(fr.i, fr, token.NoPos, newFn, nil)
}

func (i *interpreter) syncMap(p value) *smap {
	key := p.(*value)
	if i.syncMaps == nil {
		i.syncMaps = map[*value]*smap{}
	}
	m := i.syncMaps[key]
	if m == nil {
		m = makeMap(types.NewInterfaceType(nil, nil).Complete(), 0).(*smap)
		i.syncMaps[key] = m
	}
	return m
}

func extSyncMapLoad(fr *frame, args []value) value {
	v, ok := fr.i.syncMap(args[0]).lookup(fr.i, args[1])
	if !ok {
		return tuple{iface{}, false}
	}
	return tuple{v, true}
}

func extSyncMapStore(fr *frame, args []value) value {
	fr.i.syncMap(args[0]).insert(fr.i, args[1], args[2])
	return nil
}

func extSyncMapLoadOrStore(fr *frame, args []value) value {
	m := fr.i.syncMap(args[0])
	if v, ok := m.lookup(fr.i, args[1]); ok {
		return tuple{v, true}
	}
	m.insert(fr.i, args[1], args[2])
	return tuple{args[2], false}
}

func extSyncMapLoadAndDelete(fr *frame, args []value) value {
	m := fr.i.syncMap(args[0])
	v, ok := m.lookup(fr.i, args[1])
	if !ok {
		return tuple{iface{}, false}
	}
	m.delete(fr.i, args[1])
	return tuple{v, true}
}

func extSyncMapDelete(fr *frame, args []value) value {
	fr.i.syncMap(args[0]).delete(fr.i, args[1])
	return nil
}

func extSyncMapRange(fr *frame, args []value) value {
	it := fr.i.syncMap(args[0]).iter(fr.i)
	for {
		t := it.next()
		if !t[0].(bool) {
			return nil
		}
		r := call(fr.i, fr, token.NoPos, args[1], []value{t[1], t[2]})
		if !fr.i.decide(r, BrIf, "sync.Map.Range callback") {
			return nil
		}
	}
}

func extAtomicLoad(fr *frame, args []value) value {
	p := args[0].(*value)
	if p == nil {
		panic(runtimePanic{"runtime error: invalid memory address or nil pointer dereference"})
	}
	fr.i.hbAcquire(p)
	return *p
}

func extAtomicStore(fr *frame, args []value) value {
	p := args[0].(*value)
	if p == nil {
		panic(runtimePanic{"runtime error: invalid memory address or nil pointer dereference"})
	}
	fr.i.hbRelease(p)
	*p = args[1]
	return nil
}

func extAtomicAdd(fr *frame, args []value) value {
	p := args[0].(*value)
	fr.i.hbAcquire(p)
	defer fr.i.hbRelease(p)
	*p = fr.i.binop(token.ADD, nil, *p, args[1])
	return *p
}

func extAtomicCAS(fr *frame, args []value) value {
	p := args[0].(*value)
	fr.i.hbAcquire(p)
	defer fr.i.hbRelease(p)
	if fr.i.decide(fr.i.equalsV(nil, *p, args[1]), BrIf, "atomic CAS") {
		*p = args[2]
		return true
	}
	return false
}

func extAtomicSwap(fr *frame, args []value) value {
	p := args[0].(*value)
	fr.i.hbAcquire(p)
	defer fr.i.hbRelease(p)
	old := *p
	*p = args[1]
	return old
}

// ---------------------------------------------------------------------------
// sort

// extSortSlice sorts with a stable insertion sort calling the program's own
// less closure, so comparisons on symbolic data are recorded decisions.
func extSortSlice(fr *frame, args []value) value {
	x := args[0].(iface).v.([]value)
	less := args[1]
	lt := func(a, b int) bool {
		r := call(fr.i, fr, token.NoPos, less, []value{a, b})
		return fr.i.decide(r, BrIf, "sort.Slice less")
	}
	for a := 1; a < len(x); a++ {
		for b := a; b > 0 && lt(b, b-1); b-- {
			x[b], x[b-1] = x[b-1], x[b]
		}
	}
	return nil
}

// ---------------------------------------------------------------------------
// strings / bytes

func extBuilderString(fr *frame, args []value) value {
	p := args[0].(*value)
	if p == nil {
		panic(runtimePanic{"runtime error: invalid memory address or nil pointer dereference"})
	}
	st := (*p).(structure)
	// type Builder struct { addr *Builder; buf []byte }
	buf := st[1].([]value)
	return bytesToStr(buf)
}

func (i *interpreter) indexByteGeneric(n int, at func(k int) value, c value) value {
	for k := 0; k < n; k++ {
		if i.decide(i.binop(token.EQL, types.Typ[types.Uint8], at(k), c), BrIf, "IndexByte") {
			return k
		}
	}
	return -1
}

func extStringsIndexByte(fr *frame, args []value) value {
	s, _ := strParts(args[0])
	return fr.i.indexByteGeneric(len(s), func(k int) value { return byteAt(args[0], k) }, args[1])
}

func extBytesIndexByte(fr *frame, args []value) value {
	b := args[0].([]value)
	return fr.i.indexByteGeneric(len(b), func(k int) value { return b[k] }, args[1])
}

func extStringsIndex(fr *frame, args []value) value {
	s, ts := strParts(args[0])
	sub, tsub := strParts(args[1])
	if ts == nil && tsub == nil {
		return strings.Index(s, sub)
	}
	for k := 0; k+len(sub) <= len(s); k++ {
		var tk []*smt.Term
		if ts != nil {
			tk = ts[k : k+len(sub)]
		}
		if fr.i.decide(strEq(s[k:k+len(sub)], tk, sub, tsub), BrIf, "strings.Index") {
			return k
		}
	}
	return -1
}

func extCountString(fr *frame, args []value) value {
	s, _ := strParts(args[0])
	n := 0
	for k := 0; k < len(s); k++ {
		if fr.i.decide(fr.i.binop(token.EQL, types.Typ[types.Uint8], byteAt(args[0], k), args[1]), BrIf, "Count") {
			n++
		}
	}
	return n
}

func extCountBytes(fr *frame, args []value) value {
	b := args[0].([]value)
	n := 0
	for k := range b {
		if fr.i.decide(fr.i.binop(token.EQL, types.Typ[types.Uint8], b[k], args[1]), BrIf, "Count") {
			n++
		}
	}
	return n
}

func extMakeNoZero(fr *frame, args []value) value {
	n := fr.i.intS(args[0], "MakeNoZero")
	if n < 0 || n > 1<<26 {
		panic(runtimePanic{"runtime error: makeslice: len out of range"})
	}
	return bytesWithCap(make([]value, n))[:n]
}
