package interp

// Symbolic (concolic) layer: every value may carry an SMT term that describes
// it as a function of the run's input variables, next to its concrete value
// under the current input assignment. Control flow follows the concrete
// value; every decision that depended on a symbolic value is recorded in the
// run's trace so that the explorer can ask the solver for inputs that take
// the other side.

import (
	"fmt"
	"go/token"
	"go/types"
	"math"

	"gosym/smt"
)

// sym is a scalar (bool, integer, float) with a shadow term.
type sym struct {
	c value     // concrete Go value of the exact basic type
	t *smt.Term // never nil
}

// symstr is a string some of whose bytes carry terms. Always used as *symstr.
type symstr struct {
	s string
	t []*smt.Term // len(t)==len(s); nil entry = concrete byte
}

func (s *symstr) String() string { return fmt.Sprintf("sym%q", s.s) }

// BranchKind classifies trace entries.
type BranchKind uint8

const (
	BrIf         BranchKind = iota // ordinary decision of the code under test
	BrAssume                       // verif.Assume / engine-internal domain constraint: the false side is discarded
	BrAssert                       // verif.Assert: the false side is a violation
	BrConcretize                   // value == concrete; other side enumerates other values
)

// Branch is one recorded decision.
type Branch struct {
	Cond  *smt.Term
	Taken bool
	Kind  BranchKind
	Site  string
}

// normStr returns a plain string when no byte is symbolic.
func normStr(s string, t []*smt.Term) value {
	for _, x := range t {
		if x != nil {
			return &symstr{s: s, t: t}
		}
	}
	return s
}

func strParts(v value) (string, []*smt.Term) {
	switch v := v.(type) {
	case string:
		return v, nil
	case *symstr:
		return v.s, v.t
	}
	panic(fmt.Sprintf("strParts: not a string: %T", v))
}

func isStr(v value) bool {
	switch v.(type) {
	case string, *symstr:
		return true
	}
	return false
}

// conc strips the shadow from a scalar or string.
func conc(v value) value {
	switch v := v.(type) {
	case sym:
		return v.c
	case *symstr:
		return v.s
	}
	return v
}

func isSym(v value) bool {
	switch v.(type) {
	case sym, *symstr:
		return true
	}
	return false
}

func sortOf(c value) smt.Sort {
	switch c.(type) {
	case bool:
		return smt.Bool
	case int8, uint8:
		return smt.BV8
	case int16, uint16:
		return smt.BV16
	case int32, uint32:
		return smt.BV32
	case int, int64, uint, uint64, uintptr:
		return smt.BV64
	case float32:
		return smt.FP32
	case float64:
		return smt.FP64
	}
	panic(fmt.Sprintf("sortOf: unsupported %T", c))
}

func isSignedVal(c value) bool {
	switch c.(type) {
	case int, int8, int16, int32, int64:
		return true
	}
	return false
}

func isFloatVal(c value) bool {
	switch c.(type) {
	case float32, float64:
		return true
	}
	return false
}

func bitsOf(c value) uint64 {
	switch c := c.(type) {
	case int:
		return uint64(c)
	case int8:
		return uint64(uint8(c))
	case int16:
		return uint64(uint16(c))
	case int32:
		return uint64(uint32(c))
	case int64:
		return uint64(c)
	case uint:
		return uint64(c)
	case uint8:
		return uint64(c)
	case uint16:
		return uint64(c)
	case uint32:
		return uint64(c)
	case uint64:
		return c
	case uintptr:
		return uint64(c)
	}
	panic(fmt.Sprintf("bitsOf: %T", c))
}

func constTerm(c value) *smt.Term {
	switch c := c.(type) {
	case bool:
		return smt.BoolConst(c)
	case float32:
		return smt.App("(_ to_fp 8 24)", smt.FP32, smt.Const(smt.BV32, uint64(math.Float32bits(c))))
	case float64:
		return smt.App("(_ to_fp 11 53)", smt.FP64, smt.Const(smt.BV64, math.Float64bits(c)))
	}
	return smt.Const(sortOf(c), bitsOf(c))
}

func termOf(v value) *smt.Term {
	if s, ok := v.(sym); ok {
		return s.t
	}
	return constTerm(v)
}

func mkSym(c value, t *smt.Term) value {
	if t == nil {
		return c
	}
	switch t.Op {
	case "const", "true", "false":
		return c
	}
	return sym{c: c, t: t}
}

// byteAt returns byte i of a (possibly symbolic) string as a value.
func byteAt(v value, i int) value {
	s, t := strParts(v)
	if t != nil && t[i] != nil {
		return sym{c: s[i], t: t[i]}
	}
	return s[i]
}

func byteTerm(s string, t []*smt.Term, i int) *smt.Term {
	if t != nil && t[i] != nil {
		return t[i]
	}
	return smt.Const(smt.BV8, uint64(s[i]))
}

// ---------------------------------------------------------------------------
// decisions

type engineError struct {
	msg   string
	stack string
}

func (e engineError) Error() string { return "engine error: " + e.msg }

func engineErrorf(format string, args ...interface{}) engineError {
	return engineError{msg: fmt.Sprintf(format, args...)}
}

// decide records a decision on a possibly-symbolic bool and returns its
// concrete value.
func (i *interpreter) decide(v value, kind BranchKind, site string) bool {
	switch v := v.(type) {
	case bool:
		return v
	case sym:
		b := v.c.(bool)
		i.run.addBranch(Branch{Cond: v.t, Taken: b, Kind: kind, Site: site})
		return b
	}
	panic(engineErrorf("decide: not a bool: %T", v))
}

// concretize pins a symbolic scalar to its current concrete value, recording
// the equality so that other values are explored by negation.
func (i *interpreter) concretize(v value, site string) value {
	s, ok := v.(sym)
	if !ok {
		return v
	}
	if b, isb := s.c.(bool); isb {
		i.run.addBranch(Branch{Cond: s.t, Taken: b, Kind: BrIf, Site: site})
		return s.c
	}
	if isFloatVal(s.c) {
		f := toFloat64(s.c)
		nan := f != f
		i.run.addBranch(Branch{Cond: smt.App("fp.isNaN", smt.Bool, s.t), Taken: nan, Kind: BrIf, Site: site})
		if nan {
			return s.c
		}
	}
	// BrConcretize conditions always have the shape (= term const); the
	// explorer enumerates other values by accumulating exclusions.
	eq := smt.App("=", smt.Bool, s.t, constTerm(s.c))
	i.run.addBranch(Branch{Cond: eq, Taken: true, Kind: BrConcretize, Site: site})
	return s.c
}

// concretizeStr pins every symbolic byte of a string.
func (i *interpreter) concretizeStr(v value, site string) string {
	s, t := strParts(v)
	for k := range t {
		if t[k] != nil {
			i.concretize(sym{c: s[k], t: t[k]}, site)
		}
	}
	return s
}

func toFloat64(c value) float64 {
	switch c := c.(type) {
	case float32:
		return float64(c)
	case float64:
		return c
	}
	panic("toFloat64")
}

// ---------------------------------------------------------------------------
// binary operators

var bvArith = map[token.Token]string{
	token.ADD: "bvadd", token.SUB: "bvsub", token.MUL: "bvmul",
	token.AND: "bvand", token.OR: "bvor", token.XOR: "bvxor",
}

var fpArith = map[token.Token]string{
	token.ADD: "fp.add", token.SUB: "fp.sub", token.MUL: "fp.mul", token.QUO: "fp.div",
}

// binopS is binop for operands at least one of which carries a term.
func (i *interpreter) binopS(op token.Token, t types.Type, x, y value) value {
	if isStr(x) || isStr(y) {
		return i.strBinop(op, x, y)
	}
	switch op {
	case token.EQL:
		return i.equalsS(t, x, y)
	case token.NEQ:
		return i.notS(i.equalsS(t, x, y))
	}
	cx, cy := conc(x), conc(y)

	// Go-level panics that depend on symbolic operands are decisions.
	switch op {
	case token.QUO, token.REM:
		if !isFloatVal(cx) {
			if _, ok := y.(sym); ok {
				z := i.binopS(token.EQL, t, y, zeroLike(cy))
				if i.decide(z, BrIf, "divide-by-zero check") {
					panic(runtimePanic{"runtime error: integer divide by zero"})
				}
			}
		}
	case token.SHL, token.SHR:
		if isSignedVal(cy) {
			if _, ok := y.(sym); ok {
				neg := i.binopS(token.LSS, nil, y, zeroLike(cy))
				if i.decide(neg, BrIf, "negative shift check") {
					panic(runtimePanic{"runtime error: negative shift amount"})
				}
			}
		}
	}

	r := binop(op, t, cx, cy)
	tx, ty := termOf(x), termOf(y)

	if _, isBool := cx.(bool); isBool {
		// only == and != reach here for bools, handled above; & | on bools do not exist in SSA
		panic(engineErrorf("binopS: bool operands with %s", op))
	}

	if isFloatVal(cx) {
		s := sortOf(cx)
		switch op {
		case token.ADD, token.SUB, token.MUL, token.QUO:
			return mkSym(r, smt.App(fpArith[op]+" RNE", s, tx, ty))
		case token.LSS:
			return mkSym(r, smt.App("fp.lt", smt.Bool, tx, ty))
		case token.LEQ:
			return mkSym(r, smt.App("fp.leq", smt.Bool, tx, ty))
		case token.GTR:
			return mkSym(r, smt.App("fp.gt", smt.Bool, tx, ty))
		case token.GEQ:
			return mkSym(r, smt.App("fp.geq", smt.Bool, tx, ty))
		}
		panic(engineErrorf("binopS: float op %s", op))
	}

	signed := isSignedVal(cx)
	s := sortOf(cx)
	switch op {
	case token.ADD, token.SUB, token.MUL, token.AND, token.OR, token.XOR:
		return mkSym(r, smt.App(bvArith[op], s, tx, ty))
	case token.AND_NOT:
		return mkSym(r, smt.App("bvand", s, tx, smt.App("bvnot", s, ty)))
	case token.QUO:
		if signed {
			return mkSym(r, smt.App("bvsdiv", s, tx, ty))
		}
		return mkSym(r, smt.App("bvudiv", s, tx, ty))
	case token.REM:
		if signed {
			return mkSym(r, smt.App("bvsrem", s, tx, ty))
		}
		return mkSym(r, smt.App("bvurem", s, tx, ty))
	case token.SHL, token.SHR:
		amt := shiftAmount(ty, s.W)
		o := "bvshl"
		if op == token.SHR {
			if signed {
				o = "bvashr"
			} else {
				o = "bvlshr"
			}
		}
		return mkSym(r, smt.App(o, s, tx, amt))
	case token.LSS, token.LEQ, token.GTR, token.GEQ:
		var o string
		switch op {
		case token.LSS:
			o = "lt"
		case token.LEQ:
			o = "le"
		case token.GTR:
			o = "gt"
		case token.GEQ:
			o = "ge"
		}
		if signed {
			o = "bvs" + o
		} else {
			o = "bvu" + o
		}
		return mkSym(r, smt.App(o, smt.Bool, tx, ty))
	}
	panic(engineErrorf("binopS: unsupported op %s on %T", op, cx))
}

// shiftAmount converts a shift-count term to width w, saturating at w so that
// over-wide shifts keep Go semantics (result 0 / sign fill).
func shiftAmount(ty *smt.Term, w int) *smt.Term {
	wy := ty.S.W
	switch {
	case wy == w:
		return ty
	case wy < w:
		return smt.ZeroExt(ty, w)
	}
	big := smt.App("bvuge", smt.Bool, ty, smt.Const(smt.BV(wy), uint64(w)))
	return smt.Ite(big, smt.Const(smt.BV(w), uint64(w)), smt.Extract(ty, w-1, 0))
}

func zeroLike(c value) value {
	switch c.(type) {
	case int:
		return int(0)
	case int8:
		return int8(0)
	case int16:
		return int16(0)
	case int32:
		return int32(0)
	case int64:
		return int64(0)
	case uint:
		return uint(0)
	case uint8:
		return uint8(0)
	case uint16:
		return uint16(0)
	case uint32:
		return uint32(0)
	case uint64:
		return uint64(0)
	case uintptr:
		return uintptr(0)
	case float32:
		return float32(0)
	case float64:
		return float64(0)
	}
	panic("zeroLike")
}

func (i *interpreter) notS(v value) value {
	switch v := v.(type) {
	case bool:
		return !v
	case sym:
		return mkSym(!v.c.(bool), smt.Not(v.t))
	}
	panic(engineErrorf("notS: %T", v))
}

// andS returns the conjunction of possibly-symbolic bools without deciding.
func andS(vs ...value) value {
	c := true
	var ts []*smt.Term
	for _, v := range vs {
		switch v := v.(type) {
		case bool:
			if !v {
				return false
			}
		case sym:
			if !v.c.(bool) {
				c = false
			}
			ts = append(ts, v.t)
		default:
			panic(engineErrorf("andS: %T", v))
		}
	}
	if len(ts) == 0 {
		return c
	}
	return mkSym(c, smt.And(ts...))
}

func orS(vs ...value) value {
	c := false
	var ts []*smt.Term
	for _, v := range vs {
		switch v := v.(type) {
		case bool:
			if v {
				return true
			}
		case sym:
			if v.c.(bool) {
				c = true
			}
			ts = append(ts, v.t)
		default:
			panic(engineErrorf("orS: %T", v))
		}
	}
	if len(ts) == 0 {
		return c
	}
	return mkSym(c, smt.Or(ts...))
}

// ---------------------------------------------------------------------------
// strings

func (i *interpreter) strBinop(op token.Token, x, y value) value {
	sx, tx := strParts(x)
	sy, ty := strParts(y)
	switch op {
	case token.ADD:
		if tx == nil && ty == nil {
			return sx + sy
		}
		t := make([]*smt.Term, len(sx)+len(sy))
		if tx != nil {
			copy(t, tx)
		}
		if ty != nil {
			copy(t[len(sx):], ty)
		}
		return normStr(sx+sy, t)
	case token.EQL:
		return strEq(sx, tx, sy, ty)
	case token.NEQ:
		return i.notS(strEq(sx, tx, sy, ty))
	case token.LSS:
		return strLess(sx, tx, sy, ty, false)
	case token.LEQ:
		return strLess(sx, tx, sy, ty, true)
	case token.GTR:
		return strLess(sy, ty, sx, tx, false)
	case token.GEQ:
		return strLess(sy, ty, sx, tx, true)
	}
	panic(engineErrorf("strBinop: %s", op))
}

func strEq(sx string, tx []*smt.Term, sy string, ty []*smt.Term) value {
	if len(sx) != len(sy) {
		return false
	}
	var ts []*smt.Term
	for k := 0; k < len(sx); k++ {
		xs := tx != nil && tx[k] != nil
		ys := ty != nil && ty[k] != nil
		if !xs && !ys {
			if sx[k] != sy[k] {
				return false
			}
			continue
		}
		ts = append(ts, smt.App("=", smt.Bool, byteTerm(sx, tx, k), byteTerm(sy, ty, k)))
	}
	if len(ts) == 0 {
		return true
	}
	return mkSym(sx == sy, smt.And(ts...))
}

// strLess builds x < y (or x <= y) lexicographically.
func strLess(sx string, tx []*smt.Term, sy string, ty []*smt.Term, orEq bool) value {
	var c bool
	if orEq {
		c = sx <= sy
	} else {
		c = sx < sy
	}
	n := len(sx)
	if len(sy) < n {
		n = len(sy)
	}
	// tail: when the common prefix is equal
	var tail *smt.Term
	if orEq {
		tail = smt.BoolConst(len(sx) <= len(sy))
	} else {
		tail = smt.BoolConst(len(sx) < len(sy))
	}
	anySym := false
	acc := tail
	for k := n - 1; k >= 0; k-- {
		xs := tx != nil && tx[k] != nil
		ys := ty != nil && ty[k] != nil
		if !xs && !ys {
			if sx[k] < sy[k] {
				acc = smt.BoolConst(true)
			} else if sx[k] > sy[k] {
				acc = smt.BoolConst(false)
			}
			continue
		}
		anySym = true
		bx, by := byteTerm(sx, tx, k), byteTerm(sy, ty, k)
		acc = smt.Ite(smt.App("bvult", smt.Bool, bx, by), smt.BoolConst(true),
			smt.Ite(smt.App("=", smt.Bool, bx, by), acc, smt.BoolConst(false)))
	}
	if !anySym {
		return c
	}
	return mkSym(c, acc)
}

func strSlice(v value, l, h int) value {
	s, t := strParts(v)
	if t == nil {
		return s[l:h]
	}
	return normStr(s[l:h], t[l:h])
}

// bytesToStr converts a []byte slice value to a string value.
func bytesToStr(x []value) value {
	b := make([]byte, len(x))
	var t []*smt.Term
	for k := range x {
		switch e := x[k].(type) {
		case byte:
			b[k] = e
		case sym:
			b[k] = e.c.(byte)
			if t == nil {
				t = make([]*smt.Term, len(x))
			}
			t[k] = e.t
		default:
			panic(engineErrorf("bytesToStr: element %T", e))
		}
	}
	if t == nil {
		return string(b)
	}
	return &symstr{s: string(b), t: t}
}

func strToBytes(v value) []value {
	s, t := strParts(v)
	res := make([]value, len(s))
	for k := 0; k < len(s); k++ {
		if t != nil && t[k] != nil {
			res[k] = sym{c: s[k], t: t[k]}
		} else {
			res[k] = s[k]
		}
	}
	return res
}

// ---------------------------------------------------------------------------
// equality over arbitrary values

// equalsS is Go's == for type t over values that may contain symbolic leaves.
// The result is a bool or a symbolic bool.
func (i *interpreter) equalsS(t types.Type, x, y value) value {
	if t != nil {
		switch t.Underlying().(type) {
		case *types.Map, *types.Signature, *types.Slice:
			return eqnil(t, x, y)
		}
	}
	return i.equalsV(t, x, y)
}

func (i *interpreter) equalsV(t types.Type, x, y value) value {
	switch xv := x.(type) {
	case sym:
		return scalarEq(x, y)
	case *symstr:
		sy, ty := strParts(y)
		return strEq(xv.s, xv.t, sy, ty)
	case string:
		if ys, ok := y.(*symstr); ok {
			return strEq(xv, nil, ys.s, ys.t)
		}
		return xv == y.(string)
	case structure:
		yv := y.(structure)
		tStruct := t.Underlying().(*types.Struct)
		var parts []value
		for k, n := 0, tStruct.NumFields(); k < n; k++ {
			f := tStruct.Field(k)
			if f.Name() == "_" {
				continue
			}
			r := i.equalsV(f.Type(), xv[k], yv[k])
			if b, ok := r.(bool); ok && !b {
				return false
			}
			parts = append(parts, r)
		}
		return andS(parts...)
	case array:
		yv := y.(array)
		tElt := t.Underlying().(*types.Array).Elem()
		var parts []value
		for k := range xv {
			r := i.equalsV(tElt, xv[k], yv[k])
			if b, ok := r.(bool); ok && !b {
				return false
			}
			parts = append(parts, r)
		}
		return andS(parts...)
	case iface:
		yv := y.(iface)
		if !sameType(xv.t, yv.t) {
			return false
		}
		if xv.t == nil {
			return true
		}
		if xv.t == rtypeType {
			return xv.v.(rtype).eq(nil, yv.v)
		}
		if xv.t == errorType {
			return conc(xv.v) == conc(yv.v)
		}
		if !types.Comparable(xv.t) {
			panic(runtimePanic{fmt.Sprintf("runtime error: comparing uncomparable type %s", xv.t)})
		}
		return i.equalsV(xv.t, xv.v, yv.v)
	}
	if _, ok := y.(sym); ok {
		return scalarEq(x, y)
	}
	return equals(t, x, y)
}

func scalarEq(x, y value) value {
	cx, cy := conc(x), conc(y)
	c := equals(nil, cx, cy)
	tx, ty := termOf(x), termOf(y)
	if isFloatVal(cx) {
		return mkSym(c, smt.App("fp.eq", smt.Bool, tx, ty))
	}
	return mkSym(c, smt.App("=", smt.Bool, tx, ty))
}

// ---------------------------------------------------------------------------
// unary operators and conversions

func (i *interpreter) unopS(op token.Token, x sym) value {
	switch op {
	case token.NOT:
		return mkSym(!x.c.(bool), smt.Not(x.t))
	case token.SUB:
		if isFloatVal(x.c) {
			return mkSym(negC(x.c), smt.App("fp.neg", sortOf(x.c), x.t))
		}
		return mkSym(negC(x.c), smt.App("bvneg", sortOf(x.c), x.t))
	case token.XOR:
		return mkSym(complC(x.c), smt.App("bvnot", sortOf(x.c), x.t))
	}
	panic(engineErrorf("unopS: %s", op))
}

func negC(c value) value {
	switch c := c.(type) {
	case int:
		return -c
	case int8:
		return -c
	case int16:
		return -c
	case int32:
		return -c
	case int64:
		return -c
	case uint:
		return -c
	case uint8:
		return -c
	case uint16:
		return -c
	case uint32:
		return -c
	case uint64:
		return -c
	case uintptr:
		return -c
	case float32:
		return -c
	case float64:
		return -c
	}
	panic("negC")
}

func complC(c value) value {
	switch c := c.(type) {
	case int:
		return ^c
	case int8:
		return ^c
	case int16:
		return ^c
	case int32:
		return ^c
	case int64:
		return ^c
	case uint:
		return ^c
	case uint8:
		return ^c
	case uint16:
		return ^c
	case uint32:
		return ^c
	case uint64:
		return ^c
	case uintptr:
		return ^c
	}
	panic("complC")
}

// convS converts a symbolic scalar between basic numeric types.
func (i *interpreter) convS(tDst, tSrc types.Type, x sym) value {
	utDst := tDst.Underlying()
	bd, ok := utDst.(*types.Basic)
	if !ok {
		panic(engineErrorf("convS: destination %s", tDst))
	}
	if bd.Kind() == types.String {
		// string(rune) of a symbolic integer: encode with utf8.AppendRune
		r := i.convS(types.Typ[types.Int32], tSrc, x)
		buf := i.callByName(nil, "unicode/utf8", "AppendRune", []value{[]value(nil), r})
		return bytesToStr(buf.([]value))
	}
	r := conv(tDst, tSrc, x.c)
	srcF := isFloatVal(x.c)
	dstF := isFloatVal(r)
	ds := sortOf(r)
	switch {
	case !srcF && !dstF:
		sw := x.t.S.W
		switch {
		case ds.W == sw:
			return mkSym(r, x.t)
		case ds.W < sw:
			return mkSym(r, smt.Extract(x.t, ds.W-1, 0))
		default:
			if isSignedVal(x.c) {
				return mkSym(r, smt.SignExt(x.t, ds.W))
			}
			return mkSym(r, smt.ZeroExt(x.t, ds.W))
		}
	case !srcF && dstF:
		op := "to_fp_unsigned"
		if isSignedVal(x.c) {
			op = "to_fp"
		}
		if ds.K == smt.KFP32 {
			return mkSym(r, smt.App("(_ "+op+" 8 24) RNE", ds, x.t))
		}
		return mkSym(r, smt.App("(_ "+op+" 11 53) RNE", ds, x.t))
	case srcF && dstF:
		if ds == x.t.S {
			return mkSym(r, x.t)
		}
		if ds.K == smt.KFP32 {
			return mkSym(r, smt.App("(_ to_fp 8 24) RNE", ds, x.t))
		}
		return mkSym(r, smt.App("(_ to_fp 11 53) RNE", ds, x.t))
	default: // float -> int
		op := "fp.to_ubv"
		if isSignedVal(r) {
			op = "fp.to_sbv"
		}
		return mkSym(r, smt.App(fmt.Sprintf("(_ %s %d) RTZ", op, ds.W), ds, x.t))
	}
}

// indexS resolves a possibly-symbolic index against a container of length n,
// raising the Go panic on the out-of-range side.
func (i *interpreter) indexS(idx value, n int, what string) int {
	s, ok := idx.(sym)
	if !ok {
		k := asInt64(idx)
		if k < 0 || k >= int64(n) {
			panic(runtimePanic{fmt.Sprintf("runtime error: index out of range [%d] with length %d", k, n)})
		}
		return int(k)
	}
	// in range <=> idx u< n over the 64-bit sign-extended value
	t64 := s.t
	if t64.S.W < 64 {
		if isSignedVal(s.c) {
			t64 = smt.SignExt(t64, 64)
		} else {
			t64 = smt.ZeroExt(t64, 64)
		}
	}
	k := asInt64(s.c)
	inRange := k >= 0 && k < int64(n)
	cond := mkSym(inRange, smt.App("bvult", smt.Bool, t64, smt.Const(smt.BV64, uint64(n))))
	if !i.decide(cond, BrIf, what+" bounds check") {
		panic(runtimePanic{fmt.Sprintf("runtime error: index out of range [%d] with length %d", k, n)})
	}
	return int(asInt64(i.concretize(s, what+" index")))
}

var _ = fmt.Sprint

// intS pins a possibly-symbolic integer (used for slice bounds, lengths).
func (i *interpreter) intS(v value, what string) int64 {
	if s, ok := v.(sym); ok {
		return asInt64(i.concretize(s, what))
	}
	return asInt64(v)
}

// symref is the address of an element selected by a symbolic index from a
// container whose elements are all scalars; it only supports loads.
type symref struct {
	elems []value
	idx   sym
	k     int // concrete index
}

// selectS returns elems[idx] as a symbolic value: an if-then-else chain over
// runs of equal elements. ok is false when the elements are not all scalars of
// one sort (the caller then enumerates the index instead).
func selectS(elems []value, idx sym, k int) (value, bool) {
	if len(elems) == 0 {
		return nil, false
	}
	var srt smt.Sort
	for n, e := range elems {
		c := conc(e)
		switch c.(type) {
		case bool, int, int8, int16, int32, int64, uint, uint8, uint16, uint32, uint64, uintptr, float32, float64:
		default:
			return nil, false
		}
		if _, isStr := e.(*symstr); isStr {
			return nil, false
		}
		if n == 0 {
			srt = sortOf(c)
		} else if sortOf(c) != srt {
			return nil, false
		}
	}
	// runs of identical concrete elements
	type run struct {
		hi int
		t  *smt.Term
	}
	var runs []run
	same := func(a, b value) bool {
		if isSym(a) || isSym(b) {
			return false
		}
		if isFloatVal(a) {
			return bitsOfFloat(a) == bitsOfFloat(b)
		}
		return a == b
	}
	for n := 0; n < len(elems); n++ {
		if n > 0 && same(elems[n], elems[n-1]) {
			runs[len(runs)-1].hi = n
			continue
		}
		runs = append(runs, run{hi: n, t: termOf(elems[n])})
	}
	if len(runs) > 512 {
		return nil, false
	}
	it := idx.t
	acc := runs[len(runs)-1].t
	for r := len(runs) - 2; r >= 0; r-- {
		acc = smt.Ite(smt.App("bvule", smt.Bool, it, smt.Const(it.S, uint64(runs[r].hi))), runs[r].t, acc)
	}
	return mkSym(conc(elems[k]), acc), true
}

func bitsOfFloat(c value) uint64 {
	switch c := c.(type) {
	case float32:
		return uint64(math.Float32bits(c))
	case float64:
		return math.Float64bits(c)
	}
	panic("bitsOfFloat")
}

// boundsS decides the bounds check of a symbolic index and returns the
// concrete index (without pinning it).
func (i *interpreter) boundsS(s sym, n int, what string) int {
	t64 := s.t
	if t64.S.W < 64 {
		if isSignedVal(s.c) {
			t64 = smt.SignExt(t64, 64)
		} else {
			t64 = smt.ZeroExt(t64, 64)
		}
	}
	k := asInt64(s.c)
	inRange := k >= 0 && k < int64(n)
	cond := mkSym(inRange, smt.App("bvult", smt.Bool, t64, smt.Const(smt.BV64, uint64(n))))
	if !i.decide(cond, BrIf, what+" bounds check") {
		panic(runtimePanic{fmt.Sprintf("runtime error: index out of range [%d] with length %d", k, n)})
	}
	return int(k)
}

// indexValue implements x[idx] for value containers with a possibly
// symbolic index.
func (i *interpreter) indexValue(elems []value, idx value, what string) value {
	s, ok := idx.(sym)
	if !ok {
		return elems[i.indexS(idx, len(elems), what)]
	}
	k := i.boundsS(s, len(elems), what)
	if v, ok := selectS(elems, s, k); ok {
		return v
	}
	return elems[i.classifyIndex(elems, s, k)]
}

// classifyIndex handles a symbolic index into a container of non-scalar
// elements whose element is only read: instead of enumerating index values
// it decides which class of identical elements the index selects (one
// decision per class), and returns the concrete index.
func (i *interpreter) classifyIndex(elems []value, s sym, k int) int {
	type class struct {
		key  interface{}
		runs [][2]int
	}
	var classes []*class
	byKey := map[interface{}]*class{}
	for n, e := range elems {
		key := identityKey(e, n)
		c := byKey[key]
		if c == nil {
			c = &class{key: key}
			byKey[key] = c
			classes = append(classes, c)
		}
		if l := len(c.runs); l > 0 && c.runs[l-1][1] == n-1 {
			c.runs[l-1][1] = n
		} else {
			c.runs = append(c.runs, [2]int{n, n})
		}
	}
	if len(classes) > 64 {
		return int(asInt64(i.concretize(s, "element index")))
	}
	it := s.t
	for _, c := range classes {
		var parts []*smt.Term
		in := false
		for _, r := range c.runs {
			if k >= r[0] && k <= r[1] {
				in = true
			}
			lo := smt.App("bvuge", smt.Bool, it, smt.Const(it.S, uint64(r[0])))
			hi := smt.App("bvule", smt.Bool, it, smt.Const(it.S, uint64(r[1])))
			if r[0] == r[1] {
				parts = append(parts, smt.App("=", smt.Bool, it, smt.Const(it.S, uint64(r[0]))))
			} else {
				parts = append(parts, smt.And(lo, hi))
			}
		}
		if i.decide(mkSym(in, smt.Or(parts...)), BrIf, "element class") {
			return k
		}
	}
	panic(engineErrorf("classifyIndex: index %d in no class", k))
}

// identityKey returns a comparable key such that two elements with the same
// key are indistinguishable to code that only reads them.
func identityKey(e value, n int) interface{} {
	type sliceKey struct {
		p        *value
		len, cap int
	}
	type uniq struct{ n int }
	switch e := e.(type) {
	case []value:
		if e == nil {
			return "nil-slice"
		}
		if cap(e) == 0 {
			return "empty-slice"
		}
		return sliceKey{&e[:1][0], len(e), cap(e)}
	case *value:
		return e
	case string:
		return "s:" + e
	case bool, int, int8, int16, int32, int64, uint, uint8, uint16, uint32, uint64, uintptr, float32, float64:
		return e
	case iface:
		if e.t == nil {
			return "nil-iface"
		}
	case *smap:
		return e
	}
	return uniq{n}
}
