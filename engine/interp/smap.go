package interp

// Ordered map with support for symbolic keys. Replaces both the built-in map
// representation and the hashmap of the stock interpreter. Iteration order is
// insertion order (deterministic, which re-execution needs) unless the run
// asked for solver-chosen orders.

import (
	"go/types"
)

type mentry struct {
	key, val value
	deleted  bool
}

type smap struct {
	keyType types.Type
	entries []*mentry
	index   map[value]*mentry // concrete keys of basic/pointer/chan type
	n       int
	symKeys int // live entries whose key is not indexable
}

func makeMap(kt types.Type, reserve int64) value {
	return &smap{keyType: kt, index: make(map[value]*mentry)}
}

// indexable reports whether k can be used as a native Go map key with the
// same equivalence as the target program's ==.
func indexable(k value) bool {
	switch k := k.(type) {
	case bool, int, int8, int16, int32, int64, uint, uint8, uint16, uint32, uint64, uintptr, string, *value, chan value:
		return true
	case float32:
		return k == k
	case float64:
		return k == k
	}
	return false
}

func (m *smap) len() int {
	if m == nil {
		return 0
	}
	return m.n
}

// find returns the entry equal to k, recording decisions for symbolic
// comparisons.
func (m *smap) find(i *interpreter, k value) *mentry {
	if m == nil {
		return nil
	}
	if indexable(k) {
		if e := m.index[k]; e != nil {
			return e
		}
		if m.symKeys == 0 {
			return nil
		}
		for _, e := range m.entries {
			if e.deleted || indexable(e.key) {
				continue
			}
			if i.decide(i.equalsV(m.keyType, k, e.key), BrIf, "map key comparison") {
				return e
			}
		}
		return nil
	}
	for _, e := range m.entries {
		if e.deleted {
			continue
		}
		if i.decide(i.equalsV(m.keyType, k, e.key), BrIf, "map key comparison") {
			return e
		}
	}
	return nil
}

func (m *smap) lookup(i *interpreter, k value) (value, bool) {
	if e := m.find(i, k); e != nil {
		return e.val, true
	}
	return nil, false
}

func (m *smap) insert(i *interpreter, k, v value) {
	if m == nil {
		panic(runtimePanic{"assignment to entry in nil map"})
	}
	if e := m.find(i, k); e != nil {
		e.val = v
		return
	}
	e := &mentry{key: k, val: v}
	m.entries = append(m.entries, e)
	m.n++
	if indexable(k) {
		m.index[k] = e
	} else {
		m.symKeys++
	}
}

func (m *smap) delete(i *interpreter, k value) {
	if m == nil {
		return
	}
	e := m.find(i, k)
	if e == nil {
		return
	}
	e.deleted = true
	m.n--
	if indexable(e.key) {
		delete(m.index, e.key)
	} else {
		m.symKeys--
	}
	// compact occasionally
	if len(m.entries) > 32 && m.n < len(m.entries)/2 {
		live := m.entries[:0:0]
		for _, e := range m.entries {
			if !e.deleted {
				live = append(live, e)
			}
		}
		m.entries = live
	}
}

func (m *smap) clear() {
	if m == nil {
		return
	}
	for _, e := range m.entries {
		e.deleted = true
	}
	m.entries = nil
	m.index = make(map[value]*mentry)
	m.n = 0
	m.symKeys = 0
}

// smapIter iterates over a snapshot of the entry list in a fixed order,
// skipping entries deleted meanwhile (as Go does).
type smapIter struct {
	order []*mentry
	pos   int
}

func (it *smapIter) next() tuple {
	for it.pos < len(it.order) {
		e := it.order[it.pos]
		it.pos++
		if e.deleted {
			continue
		}
		return tuple{true, e.key, e.val}
	}
	return tuple{false, nil, nil}
}

func (m *smap) iter(i *interpreter) *smapIter {
	if m == nil {
		return &smapIter{}
	}
	live := make([]*mentry, 0, m.n)
	for _, e := range m.entries {
		if !e.deleted {
			live = append(live, e)
		}
	}
	if i.run.mapOrder && len(live) > 1 {
		// Fisher-Yates with solver-chosen picks: every permutation is a path.
		for k := len(live) - 1; k > 0; k-- {
			j := i.chooseInt(k+1, "map iteration order")
			live[k], live[j] = live[j], live[k]
		}
	}
	return &smapIter{order: live}
}
