package interp

// Engine models of errors.As and errors.Is (the real ones go through
// internal/reflectlite, which the engine does not execute).

import (
	"go/token"
	"go/types"

	"golang.org/x/tools/go/ssa"
)

// methodOf finds a method of the dynamic type t by name.
func (i *interpreter) methodOf(t types.Type, name string) (*ssa.Function, *types.Signature) {
	if t == nil || t == errorType || t == rtypeType {
		return nil, nil
	}
	mset := i.prog.MethodSets.MethodSet(t)
	for k := 0; k < mset.Len(); k++ {
		sel := mset.At(k)
		if sel.Obj().Name() != name {
			continue
		}
		fn := i.prog.MethodValue(sel)
		if fn == nil {
			return nil, nil
		}
		return fn, sel.Type().(*types.Signature)
	}
	return nil, nil
}

// unwrapAll returns what err wraps: Unwrap() error or Unwrap() []error.
func (i *interpreter) unwrapAll(fr *frame, err iface) []iface {
	fn, sig := i.methodOf(err.t, "Unwrap")
	if fn == nil || sig.Params().Len() != 0 || sig.Results().Len() != 1 {
		return nil
	}
	r := call(i, fr, token.NoPos, fn, []value{err.v})
	switch r := r.(type) {
	case iface:
		if r.t == nil {
			return nil
		}
		return []iface{r}
	case []value:
		var out []iface
		for _, e := range r {
			if ie, ok := e.(iface); ok && ie.t != nil {
				out = append(out, ie)
			}
		}
		return out
	}
	return nil
}

func extErrorsAs(fr *frame, args []value) value {
	err := args[0].(iface)
	target := args[1].(iface)
	if target.t == nil {
		panic(targetPanic{iface{errorType, "errors: target cannot be nil"}})
	}
	pt, ok := target.t.Underlying().(*types.Pointer)
	p, _ := target.v.(*value)
	if !ok || p == nil {
		panic(targetPanic{iface{errorType, "errors: target must be a non-nil pointer"}})
	}
	tt := pt.Elem()
	_, targetIsIface := tt.Underlying().(*types.Interface)
	var walk func(e iface) bool
	walk = func(e iface) bool {
		if e.t == nil {
			return false
		}
		if e.t != errorType && types.AssignableTo(e.t, tt) {
			if targetIsIface {
				*p = e
			} else {
				*p = e.v
			}
			return true
		}
		if fn, sig := fr.i.methodOf(e.t, "As"); fn != nil && sig.Params().Len() == 1 && sig.Results().Len() == 1 {
			if r, ok := call(fr.i, fr, token.NoPos, fn, []value{e.v, target}).(bool); ok && r {
				return true
			}
		}
		for _, inner := range fr.i.unwrapAll(fr, e) {
			if walk(inner) {
				return true
			}
		}
		return false
	}
	return walk(err)
}

func extErrorsIs(fr *frame, args []value) value {
	err := args[0].(iface)
	target := args[1].(iface)
	if err.t == nil || target.t == nil {
		return err.t == nil && target.t == nil
	}
	comparable := types.Comparable(target.t)
	var walk func(e iface) bool
	walk = func(e iface) bool {
		if e.t == nil {
			return false
		}
		if comparable && types.Identical(e.t, target.t) {
			if fr.i.decide(fr.i.equalsV(e.t, e.v, target.v), BrIf, "errors.Is") {
				return true
			}
		}
		if fn, sig := fr.i.methodOf(e.t, "Is"); fn != nil && sig.Params().Len() == 1 && sig.Results().Len() == 1 {
			if r, ok := call(fr.i, fr, token.NoPos, fn, []value{e.v, target}).(bool); ok && r {
				return true
			}
		}
		for _, inner := range fr.i.unwrapAll(fr, e) {
			if walk(inner) {
				return true
			}
		}
		return false
	}
	return walk(err)
}
