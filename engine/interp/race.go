package interp

// Happens-before data-race detection for thread mode (C17).
//
// The cooperative scheduler (zzverif.RunThreads) tells the engine which
// logical thread runs (hbSwitch); the instrumented sync primitives (zzsync)
// report release / acquire on a synchronisation object (HBRelease /
// HBAcquire). Every Load, Store and map operation executed by a logical
// thread is checked against the last conflicting access of the other threads
// with vector clocks (FastTrack without the epoch optimisation; at most
// maxThreads threads). Only accesses made while a logical thread runs are
// recorded: what the main goroutine does before RunThreads is ordered before,
// and what it does afterwards after, every thread.
//
// Granularity and limits: a cell is one addressable slot (variable, field,
// array/slice element) or one map; a whole-struct store and a field access of
// the same struct are different cells (missed, not invented); copy and
// in-place append are recorded element by element; engine intrinsics
// (strings.Builder, bytes kernels, fmt) are not.

import (
	"fmt"
	"strings"

	"golang.org/x/tools/go/ssa"
)

const maxThreads = 8

type vclock [maxThreads]int32

func (a *vclock) join(b *vclock) {
	for k := range a {
		if b[k] > a[k] {
			a[k] = b[k]
		}
	}
}

type cellShadow struct {
	wTid  int
	wClk  int32
	wSite ssa.Instruction
	r     [maxThreads]int32
	rSite [maxThreads]ssa.Instruction
}

type raceState struct {
	on    bool
	susp  int             // >0: accesses are not recorded (lazy package initialisation)
	cur   ssa.Instruction // the instruction being executed (for copy/append)
	tid   int             // running logical thread, -1 outside RunThreads
	vc    [maxThreads]vclock
	sync  map[interface{}]*vclock
	cells map[interface{}]*cellShadow
}

func newRaceState() *raceState {
	rs := &raceState{tid: -1, sync: map[interface{}]*vclock{}, cells: map[interface{}]*cellShadow{}}
	for t := range rs.vc {
		rs.vc[t][t] = 1
	}
	return rs
}

func (i *interpreter) raceSite(in ssa.Instruction) string {
	if in == nil {
		return "?"
	}
	fn := ""
	if in.Parent() != nil {
		fn = in.Parent().String() + " @ "
	}
	return fn + i.site(in)
}

func (i *interpreter) raceReport(kind string, t int, cur ssa.Instruction, u int, other ssa.Instruction, otherKind string) {
	panic(violation{fmt.Sprintf("data race: %s by T%d at %s conflicts with unordered %s by T%d at %s", kind, t, i.raceSite(cur), otherKind, u, i.raceSite(other))})
}

// raceExempt: the scheduler and the instrumented primitives themselves (their
// state is protected by the baton, which the detector deliberately ignores).
func raceExempt(in ssa.Instruction) bool {
	fn := in.Parent()
	for fn != nil && fn.Parent() != nil {
		fn = fn.Parent() // closures
	}
	if fn == nil || fn.Pkg == nil {
		return false
	}
	p := fn.Pkg.Pkg.Path()
	return strings.HasSuffix(p, "/zzverif") || strings.HasSuffix(p, "/zzverif/zzsync")
}

func (i *interpreter) raceRead(key interface{}, cur ssa.Instruction) {
	rs := i.race
	if rs == nil || !rs.on || rs.tid < 0 || rs.susp > 0 || raceExempt(cur) {
		return
	}
	t := rs.tid
	s := rs.cells[key]
	if s == nil {
		s = &cellShadow{wTid: -1}
		rs.cells[key] = s
	}
	if s.wTid >= 0 && s.wTid != t && s.wClk > rs.vc[t][s.wTid] {
		i.raceReport("read", t, cur, s.wTid, s.wSite, "write")
	}
	s.r[t] = rs.vc[t][t]
	s.rSite[t] = cur
}

func (i *interpreter) raceWrite(key interface{}, cur ssa.Instruction) {
	rs := i.race
	if rs == nil || !rs.on || rs.tid < 0 || rs.susp > 0 || raceExempt(cur) {
		return
	}
	t := rs.tid
	s := rs.cells[key]
	if s == nil {
		s = &cellShadow{wTid: -1}
		rs.cells[key] = s
	}
	if s.wTid >= 0 && s.wTid != t && s.wClk > rs.vc[t][s.wTid] {
		i.raceReport("write", t, cur, s.wTid, s.wSite, "write")
	}
	for u := range s.r {
		if u != t && s.r[u] > rs.vc[t][u] {
			i.raceReport("write", t, cur, u, s.rSite[u], "read")
		}
	}
	s.wTid, s.wClk, s.wSite = t, rs.vc[t][t], cur
}

func (i *interpreter) raceSuspend(d int) {
	if i.race != nil {
		i.race.susp += d
	}
}

// hbRelease / hbAcquire: used by the engine's own models of sync.Once,
// sync.Mutex and sync/atomic in code that is not instrumented (standard
// library, dependencies).
func (i *interpreter) hbRelease(k interface{}) {
	rs := i.race
	if rs == nil || !rs.on || rs.tid < 0 || k == nil {
		return
	}
	c := rs.sync[k]
	if c == nil {
		c = new(vclock)
		rs.sync[k] = c
	}
	c.join(&rs.vc[rs.tid])
	rs.vc[rs.tid][rs.tid]++
}

func (i *interpreter) hbAcquire(k interface{}) {
	rs := i.race
	if rs == nil || !rs.on || rs.tid < 0 || k == nil {
		return
	}
	if c := rs.sync[k]; c != nil {
		rs.vc[rs.tid].join(c)
	}
}

// raceCopy records what the copy builtin touches: dst[0:n] written, src[0:n]
// read (src nil: a string source). raceAppendInPlace records the elements an
// append writes into spare capacity of a shared backing array.
func (i *interpreter) raceCopy(dst, src []value, n int) {
	rs := i.race
	if rs == nil || !rs.on || rs.tid < 0 || rs.susp > 0 || rs.cur == nil {
		return
	}
	for k := 0; k < n; k++ {
		i.raceWrite(&dst[k], rs.cur)
		if src != nil {
			i.raceRead(&src[k], rs.cur)
		}
	}
}

func (i *interpreter) raceAppendInPlace(grown []value, from int) {
	rs := i.race
	if rs == nil || !rs.on || rs.tid < 0 || rs.susp > 0 || rs.cur == nil {
		return
	}
	for k := from; k < len(grown); k++ {
		i.raceWrite(&grown[k], rs.cur)
	}
}

func hbKey(v value) interface{} {
	if itf, ok := v.(iface); ok {
		v = itf.v
	}
	switch v.(type) {
	case *value, *smap, chan value:
		return v
	}
	return nil
}

// raceIntrinsic implements the zzverif functions of the detector; ok is false
// when name is not one of them.
func (i *interpreter) raceIntrinsic(name string, args []value) (ok bool) {
	switch name {
	case "RaceDetect":
		if i.race == nil {
			i.race = newRaceState()
		}
		i.race.on = args[0].(bool)
	case "hbSwitch":
		if i.race != nil {
			t := args[0].(int)
			if t >= maxThreads {
				panic(engineErrorf("more than %d logical threads", maxThreads))
			}
			i.race.tid = t
		}
	case "HBRelease":
		rs := i.race
		if rs == nil || rs.tid < 0 {
			return true
		}
		k := hbKey(args[0])
		if k == nil {
			panic(engineErrorf("HBRelease: object of type %T has no identity", args[0]))
		}
		c := rs.sync[k]
		if c == nil {
			c = new(vclock)
			rs.sync[k] = c
		}
		c.join(&rs.vc[rs.tid])
		rs.vc[rs.tid][rs.tid]++
	case "HBAcquire":
		rs := i.race
		if rs == nil || rs.tid < 0 {
			return true
		}
		k := hbKey(args[0])
		if k == nil {
			panic(engineErrorf("HBAcquire: object of type %T has no identity", args[0]))
		}
		if c := rs.sync[k]; c != nil {
			rs.vc[rs.tid].join(c)
		}
	default:
		return false
	}
	return true
}
